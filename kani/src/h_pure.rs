//! C19: the codec keeps no state between calls (Kani, bounded history) and
//! writes nothing to stdout/stderr (native probe used to *confirm* what the MIR
//! reachability query of lib/mir_purity.py reports; Kani itself erases
//! `println!`, DESIGN.md §2 P18).

use crate::h_msg::{real_opts, Res, NONE};
use crate::spec::bytes_eq;
use crate::{check, nd, witness};
use rl2tp::avp::types as T;
use rl2tp::avp::AVP;
use rl2tp::common::{SliceReader, VecWriter};
use rl2tp::{DataMessage, Message};

fn res_eq(a: &Res, b: &Res) -> bool {
    match (a, b) {
        (Ok(Message::Data(x)), Ok(Message::Data(y))) => {
            x.is_prioritized == y.is_prioritized
                && x.length == y.length
                && x.tunnel_id == y.tunnel_id
                && x.session_id == y.session_id
                && x.ns_nr == y.ns_nr
                && x.offset == y.offset
                && bytes_eq(x.data, y.data)
        }
        (Ok(Message::Control(x)), Ok(Message::Control(y))) => {
            x.length == y.length && x.tunnel_id == y.tunnel_id && x.session_id == y.session_id && x.ns == y.ns && x.nr == y.nr && x.avps.len() == y.avps.len()
        }
        (Err(x), Err(y)) => x.len() == y.len() && (x.is_empty() || x[0] == y[0]),
        _ => false,
    }
}

/// decode(b); decode(b'); encode(m); decode(b) again: same result; and the
/// same for encode.  Any static / thread-local the codec wrote and later read
/// is part of CBMC's memory model and would make this fail.
pub fn history_body<const N: usize, const M: usize>() {
    crate::stubs::touch();
    let b: [u8; N] = nd::any();
    let b2: [u8; M] = nd::any();
    let payload: [u8; 3] = nd::any();
    let m: Message<&[u8]> = Message::Data(DataMessage {
        is_prioritized: nd::any(),
        length: None,
        tunnel_id: nd::any(),
        session_id: nd::any(),
        ns_nr: None,
        offset: None,
        data: &payload[..],
    });
    let a = AVP::FirmwareRevision(nd::any::<u16>().into());

    let r1: Res = Message::try_read_validate(&mut SliceReader::from(&b), real_opts(NONE));
    let mut w1 = VecWriter::new();
    m.write(&mut w1);
    a.write(&mut w1);

    let other: Res = Message::try_read_validate(&mut SliceReader::from(&b2), real_opts(NONE));
    let other_avps = AVP::try_read_greedy(&mut SliceReader::from(&b2));
    let _ = T::MessageType::try_read(&mut SliceReader::from(&b2));

    let r2: Res = Message::try_read_validate(&mut SliceReader::from(&b), real_opts(NONE));
    let mut w2 = VecWriter::new();
    m.write(&mut w2);
    a.write(&mut w2);

    check!(res_eq(&r1, &r2), "C19: decoding the same octets again, after other calls, gives the same result");
    check!(bytes_eq(&w1.data, &w2.data), "C19: encoding the same value again, after other calls, gives the same octets");
    witness!(r1.is_ok(), "accepted");
    witness!(r1.is_err(), "rejected");
    std::mem::forget((r1, r2, other, other_avps));
}

//@ props=C19 tier=quick unwind=24 stubs=greedy0 witness=accepted,rejected cap=1500
pub fn pure_history_9_8() {
    history_body::<9, 8>()
}

//@ props=C19 tier=thorough unwind=28 stubs=greedy0 witness=accepted,rejected cap=3000
pub fn pure_history_14_13() {
    history_body::<14, 13>()
}

/// Native-only: drive the public codec API over a small corpus.  The runner
/// captures the process's stdout and stderr; nothing but the REPLAY-RESULT line
/// may appear.
//@ props=C19 tier=native
pub fn io_probe() {
    use rl2tp::{ValidateReserved, ValidateUnused, ValidateVersion, ValidationOptions};
    let strict = || ValidationOptions {
        reserved: ValidateReserved::Yes,
        version: ValidateVersion::Yes,
        unused: ValidateUnused::Yes,
    };
    // the crate's own doc example, plus one AVP of several kinds
    let ctrl: Vec<u8> = vec![
        0x13, 0x20, 0x00, 0x2a, 0x00, 0x02, 0x00, 0x03, 0x00, 0x04, 0x00, 0x05, // header, Length 42
        0x00, 0x08, 0x00, 0x00, 0x00, 0x00, 0x00, 0x01, // Message Type SCCRQ
        0x00, 0x0a, 0x00, 0x00, 0x00, 0x07, b'h', b'o', b's', b't', // Host Name
        0x00, 0x08, 0x00, 0x00, 0x00, 0x06, 0x12, 0x34, // Firmware Revision
        0x00, 0x0a, 0x00, 0x00, 0x00, 0x63, 1, 2, 3, 4, // unknown attribute type 99
    ];
    let _ = Message::<&[u8]>::try_read_validate(&mut SliceReader::from(&ctrl), strict());
    let _ = Message::<&[u8]>::try_read(&mut SliceReader::from(&ctrl[..32]));
    let ok: Vec<u8> = vec![0x13, 0x20, 0x00, 0x14, 0, 2, 0, 3, 0, 4, 0, 5, 0x00, 0x08, 0, 0, 0, 0, 0, 1];
    let r = Message::<&[u8]>::try_read_validate(&mut SliceReader::from(&ok), strict());
    if let Ok(m) = &r {
        let mut w = VecWriter::new();
        m.write(&mut w);
    }
    let data: Vec<u8> = vec![0x02, 0x20, 0x00, 0x0b, 0, 1, 0, 2, 0xde, 0xad, 0xbe];
    let _ = Message::<&[u8]>::try_read(&mut SliceReader::from(&data));
    let _ = AVP::try_read_greedy(&mut SliceReader::from(&ctrl[12..]));
    let a = AVP::VendorName("vendor".to_owned().into());
    let rv: T::RandomVector = [1, 2, 3, 4].into();
    let h = a.clone().hide(b"secret", &rv, &[9, 9], &[0; 16]);
    let mut w = VecWriter::new();
    h.write(&mut w);
    let _ = h.reveal(b"secret", &rv);
    let _ = a.get_length();
    let _ = format!("{}", rl2tp::common::DecodeError::IncompleteAVP(7));
}

/// Native-only: a call history over the public API in which every operation is
/// evaluated once right after an unrelated "evicting" call and once right after
/// each other operation; all results must agree.  Run by the C19 check when its
/// MIR query finds shared mutable state (a lock, an atomic, a thread-local, a
/// `static mut`) reachable from the API, to confirm an observable dependence.
//@ props=C19 tier=native
pub fn state_probe() {
    let rv: T::RandomVector = [9, 8, 7, 6].into();
    let rv2: T::RandomVector = [1, 1, 1, 1].into();
    let ops: [&dyn Fn() -> Vec<u8>; 6] = [
        &|| match AVP::VendorName("abc".to_owned().into()).hide(b"secret", &rv, &[1, 2], &[3; 16]) {
            AVP::Hidden(h) => h.value,
            _ => vec![],
        },
        &|| match AVP::HostName(vec![1, 2, 3].into()).hide(b"secret", &rv, &[1, 2], &[3; 16]) {
            AVP::Hidden(h) => h.value,
            _ => vec![],
        },
        &|| {
            let h = AVP::Hidden(T::Hidden { attribute_type: 6, value: vec![0x5a; 16] });
            format!("{:?}", h.reveal(b"secret", &rv)).into_bytes()
        },
        &|| {
            let h = AVP::Hidden(T::Hidden { attribute_type: 9, value: vec![0x5a; 16] });
            format!("{:?}", h.reveal(b"secret", &rv)).into_bytes()
        },
        &|| {
            let m: Vec<u8> = vec![0x13, 0x20, 0x00, 0x14, 0, 2, 0, 3, 0, 4, 0, 5, 0x00, 0x08, 0, 0, 0, 0, 0, 1];
            format!("{:?}", Message::<&[u8]>::try_read(&mut SliceReader::from(&m))).into_bytes()
        },
        &|| {
            let mut w = VecWriter::new();
            AVP::FirmwareRevision(0x1234.into()).write(&mut w);
            AVP::MessageType(T::MessageType::Hello).write(&mut w);
            w.data
        },
    ];
    let evict = || {
        let _ = AVP::TieBreaker(7.into()).hide(b"another secret", &rv2, &[], &[0; 16]);
        let h = AVP::Hidden(T::Hidden { attribute_type: 5, value: vec![1; 16] });
        let _ = h.reveal(b"another secret", &rv2);
        let junk: Vec<u8> = vec![0x02, 0x20, 0, 1, 0, 2, 0xaa];
        let _ = Message::<&[u8]>::try_read(&mut SliceReader::from(&junk));
    };
    let mut fresh: Vec<Vec<u8>> = Vec::new();
    for op in ops.iter() {
        evict();
        fresh.push(op());
    }
    for (i, first) in ops.iter().enumerate() {
        for (j, second) in ops.iter().enumerate() {
            evict();
            let _ = first();
            let r = second();
            let _ = i;
            check!(r == fresh[j], "C19: an operation gives the same result whatever calls preceded it (no state kept between calls)");
        }
    }
}

pub const HARNESSES: &[(&str, fn())] = &[("pure_history_9_8", pure_history_9_8), ("pure_history_14_13", pure_history_14_13), ("io_probe", io_probe), ("state_probe", state_probe)];
