//! AVP layer of the specification: the 39 payload formats (RFC 2661 §4.4),
//! the 6-octet AVP header (§4.1, with the crate's LSB-first bit numbering of
//! the first octet), the greedy record walker.

use super::utf8::is_utf8;
use super::{be16, be32, be64, bytes_eq};
use rl2tp::avp::types as T;
use rl2tp::avp::AVP;
use rl2tp::common::DecodeError as DE;

/// Specified value of one decoded AVP.  Variable parts borrow from the input.
#[derive(Clone, Copy, Debug)]
pub enum SV<'a> {
    MessageType(u16),
    ResultCode {
        code: u16,
        err: Option<(u16, Option<&'a [u8]>)>,
    },
    ProtocolVersion(u8, u8),
    Mask(u32),
    U16(u16),
    U32(u32),
    U64(u64),
    Bytes(&'a [u8]),
    Str(&'a [u8]),
    Arr4([u8; 4]),
    Arr16([u8; 16]),
    Q931 {
        code: u16,
        msg: u8,
        adv: Option<&'a [u8]>,
    },
    ProxyAuthenType(u16),
    ProxyAuthenId(u8),
    CallErrors([u32; 6]),
    Accm([u8; 4], [u8; 4]),
    Empty,
    Hidden(&'a [u8]),
    /// no value (payload too short / unassigned type)
    Nothing,
}

#[derive(Clone, Copy, Debug)]
pub struct SpecAvp<'a> {
    /// attribute type number
    pub t: u16,
    pub v: SV<'a>,
}

/// Specified outcome of decoding one payload.  The *shape* of `v` depends only
/// on the attribute type and the payload length (constants in the skeleton
/// harnesses), never on payload contents, so that symbolic execution does not
/// merge values of different shapes; content-dependent acceptance is the
/// separate flag `ok`.
#[derive(Debug)]
pub struct SpecLeaf<'a> {
    /// the specification accepts this payload
    pub ok: bool,
    /// on rejection: `Some(e)` if the input has exactly one fault and the
    /// properties (C20) name the error it must produce; `None` = any error
    pub exact: Option<DE>,
    /// the specified value (meaningful when `ok`; `SV::Nothing` when the
    /// payload is too short to hold one or the type is unassigned)
    pub v: SpecAvp<'a>,
}

fn reject<'a>(t: u16, e: DE) -> SpecLeaf<'a> {
    SpecLeaf {
        ok: false,
        exact: Some(e),
        v: SpecAvp { t, v: SV::Nothing },
    }
}

/// RFC 2661 §3.2: assigned message types.
pub fn message_type_assigned(c: u16) -> bool {
    (c >= 1 && c <= 4) || (c >= 6 && c <= 12) || (c >= 14 && c <= 16)
}

/// RFC 2661 §4.4: assigned attribute types.
pub fn attribute_type_assigned(t: u16) -> bool {
    t <= 19 || (t >= 21 && t <= 39)
}

/// Fixed payload length of kind `t`, or `None` for variable / composite kinds.
pub fn fixed_len(t: u16) -> Option<usize> {
    match t {
        0 | 2 | 6 | 9 | 10 | 14 | 29 | 32 => Some(2),
        3 | 4 | 15 | 16 | 17 | 18 | 19 | 24 | 25 | 36 | 38 => Some(4),
        5 => Some(8),
        13 => Some(16),
        34 => Some(26),
        35 => Some(10),
        39 => Some(0),
        _ => None,
    }
}

pub fn is_bytes_kind(t: u16) -> bool {
    matches!(t, 7 | 11 | 26 | 27 | 28 | 30 | 31 | 33 | 37)
}

pub fn is_string_kind(t: u16) -> bool {
    matches!(t, 8 | 21 | 22 | 23)
}

pub fn is_mask_kind(t: u16) -> bool {
    matches!(t, 3 | 4 | 18 | 19)
}

/// Specified decoding of the payload `p` of a non-hidden, vendor-0 AVP of
/// attribute type `t`.
pub fn spec_leaf<'a>(t: u16, p: &'a [u8]) -> SpecLeaf<'a> {
    let n = p.len();
    if !attribute_type_assigned(t) {
        return reject(t, DE::UnknownAvp(t));
    }
    let accept = |v: SV<'a>| SpecLeaf {
        ok: true,
        exact: None,
        v: SpecAvp { t, v },
    };
    if let Some(l) = fixed_len(t) {
        if n < l {
            return reject(t, DE::IncompleteAVP(t));
        }
        return match t {
            0 => {
                let c = be16(p, 0);
                let ok = message_type_assigned(c);
                SpecLeaf {
                    ok,
                    exact: if ok { None } else { Some(DE::UnknownMessageType(c)) },
                    v: SpecAvp { t, v: SV::MessageType(c) },
                }
            }
            2 => accept(SV::ProtocolVersion(p[0], p[1])),
            3 | 4 | 18 | 19 => accept(SV::Mask(be32(p, 0))),
            5 => accept(SV::U64(be64(p, 0))),
            6 | 9 | 10 | 14 => accept(SV::U16(be16(p, 0))),
            13 => {
                let mut a = [0u8; 16];
                let mut i = 0;
                while i < 16 {
                    a[i] = p[i];
                    i += 1;
                }
                accept(SV::Arr16(a))
            }
            15 | 16 | 17 | 24 | 38 => accept(SV::U32(be32(p, 0))),
            25 | 36 => accept(SV::Arr4([p[0], p[1], p[2], p[3]])),
            29 => {
                let c = be16(p, 0);
                // the properties do not name the error for an unassigned code
                SpecLeaf {
                    ok: c <= 5,
                    exact: None,
                    v: SpecAvp { t, v: SV::ProxyAuthenType(c) },
                }
            }
            32 => accept(SV::ProxyAuthenId(p[1])),
            34 => accept(SV::CallErrors([
                be32(p, 2),
                be32(p, 6),
                be32(p, 10),
                be32(p, 14),
                be32(p, 18),
                be32(p, 22),
            ])),
            35 => accept(SV::Accm([p[2], p[3], p[4], p[5]], [p[6], p[7], p[8], p[9]])),
            39 => accept(SV::Empty),
            _ => unreachable!(),
        };
    }
    if is_bytes_kind(t) {
        if n == 0 {
            return reject(t, DE::IncompleteAVP(t));
        }
        return accept(SV::Bytes(p));
    }
    if is_string_kind(t) {
        if n == 0 {
            return reject(t, DE::IncompleteAVP(t));
        }
        let ok = is_utf8(p);
        return SpecLeaf {
            ok,
            exact: if ok { None } else { Some(DE::InvalidUtf8(t)) },
            v: SpecAvp { t, v: SV::Str(p) },
        };
    }
    match t {
        1 => {
            if n < 2 {
                return reject(t, DE::IncompleteAVP(1));
            }
            let code = be16(p, 0);
            if n < 4 {
                // a single surplus octet cannot hold an error code
                return accept(SV::ResultCode { code, err: None });
            }
            let e = be16(p, 2);
            let bad_type = e > 8;
            let msg = &p[4..];
            let bad_msg = !msg.is_empty() && !is_utf8(msg);
            let m = if msg.is_empty() { None } else { Some(msg) };
            SpecLeaf {
                ok: !bad_type && !bad_msg,
                exact: if bad_type && !bad_msg {
                    Some(DE::InvalidResultCodeErrorType(e))
                } else if bad_msg && !bad_type {
                    Some(DE::InvalidUtf8(1))
                } else {
                    None
                },
                v: SpecAvp {
                    t,
                    v: SV::ResultCode {
                        code,
                        err: Some((e, m)),
                    },
                },
            }
        }
        12 => {
            if n < 3 {
                return reject(t, DE::IncompleteAVP(12));
            }
            let adv = &p[3..];
            let ok = adv.is_empty() || is_utf8(adv);
            SpecLeaf {
                ok,
                exact: if ok { None } else { Some(DE::InvalidUtf8(12)) },
                v: SpecAvp {
                    t,
                    v: SV::Q931 {
                        code: be16(p, 0),
                        msg: p[2],
                        adv: if adv.is_empty() { None } else { Some(adv) },
                    },
                },
            }
        }
        _ => unreachable!(),
    }
}

fn opt_str_eq(real: &Option<String>, spec: Option<&[u8]>) -> bool {
    match (real, spec) {
        (None, None) => true,
        (Some(r), Some(s)) => bytes_eq(r.as_bytes(), s),
        _ => false,
    }
}

/// Attribute type number of each variant of the crate's `AVP` enum according
/// to RFC 2661 §4.4 (variant *names* are the RFC's AVP names).
pub fn rfc_number(a: &AVP) -> u16 {
    match a {
        AVP::MessageType(_) => 0,
        AVP::ResultCode(_) => 1,
        AVP::ProtocolVersion(_) => 2,
        AVP::FramingCapabilities(_) => 3,
        AVP::BearerCapabilities(_) => 4,
        AVP::TieBreaker(_) => 5,
        AVP::FirmwareRevision(_) => 6,
        AVP::HostName(_) => 7,
        AVP::VendorName(_) => 8,
        AVP::AssignedTunnelId(_) => 9,
        AVP::ReceiveWindowSize(_) => 10,
        AVP::Challenge(_) => 11,
        AVP::Q931CauseCode(_) => 12,
        AVP::ChallengeResponse(_) => 13,
        AVP::AssignedSessionId(_) => 14,
        AVP::CallSerialNumber(_) => 15,
        AVP::MinimumBps(_) => 16,
        AVP::MaximumBps(_) => 17,
        AVP::BearerType(_) => 18,
        AVP::FramingType(_) => 19,
        AVP::CalledNumber(_) => 21,
        AVP::CallingNumber(_) => 22,
        AVP::SubAddress(_) => 23,
        AVP::TxConnectSpeed(_) => 24,
        AVP::PhysicalChannelId(_) => 25,
        AVP::InitialReceivedLcpConfReq(_) => 26,
        AVP::LastSentLcpConfReq(_) => 27,
        AVP::LastReceivedLcpConfReq(_) => 28,
        AVP::ProxyAuthenType(_) => 29,
        AVP::ProxyAuthenName(_) => 30,
        AVP::ProxyAuthenChallenge(_) => 31,
        AVP::ProxyAuthenId(_) => 32,
        AVP::ProxyAuthenResponse(_) => 33,
        AVP::CallErrors(_) => 34,
        AVP::Accm(_) => 35,
        AVP::RandomVector(_) => 36,
        AVP::PrivateGroupId(_) => 37,
        AVP::RxConnectSpeed(_) => 38,
        AVP::SequencingRequired(_) => 39,
        AVP::Hidden(h) => h.attribute_type,
    }
}

/// RFC 2661 §3.2 message-type numbers by name.
pub fn message_type_number(m: &T::MessageType) -> u16 {
    use T::MessageType::*;
    match m {
        StartControlConnectionRequest => 1,
        StartControlConnectionReply => 2,
        StartControlConnectionConnected => 3,
        StopControlConnectionNotification => 4,
        Hello => 6,
        OutgoingCallRequest => 7,
        OutgoingCallReply => 8,
        OutgoingCallConnected => 9,
        IncomingCallRequest => 10,
        IncomingCallReply => 11,
        IncomingCallConnected => 12,
        CallDisconnectNotify => 14,
        WanErrorNotify => 15,
        SetLinkInfo => 16,
    }
}

/// RFC 2661 §4.4.2 general error codes by name.
pub fn error_type_number(e: &T::result_code::ErrorType) -> u16 {
    use T::result_code::ErrorType::*;
    match e {
        Ok => 0,
        NoControlConnectionExists => 1,
        WrongLength => 2,
        OutOfRangeOrBadReserved => 3,
        InsufficientResources => 4,
        InvalidSessionId => 5,
        Generic => 6,
        TryAnotherDestination => 7,
        UnknownMandatoryAvp => 8,
    }
}

/// RFC 2661 §4.4.5 proxy authen type values by name.
pub fn proxy_authen_type_number(p: &T::ProxyAuthenType) -> u16 {
    use T::ProxyAuthenType::*;
    match p {
        Reserved => 0,
        TextualUserNamePasswordExchange => 1,
        PppChap => 2,
        PppPap => 3,
        NoAuthentication => 4,
        MicrosoftChapVersion1 => 5,
    }
}

/// The two accessor bits of a bitmask kind: (bit 6, bit 7) of the 32-bit word
/// in the crate's LSB-first numbering, i.e. RFC bits 30 and 31 — for every one
/// of the four kinds the first named flag of the RFC figure (A) is bit 6 and
/// the second (S / D) is bit 7.
fn mask_bits(w: u32) -> (bool, bool) {
    ((w >> 6) & 1 != 0, (w >> 7) & 1 != 0)
}

/// Does the decoded `real` value equal the specified one, field for field,
/// through the crate's public fields and accessors?  Dispatches on the
/// *specified* attribute type first (a constant in the skeleton harnesses), so
/// that a real value whose discriminant is not constant in symbolic execution
/// does not drag all forty comparisons into the path.
pub fn same(real: &AVP, spec: &SpecAvp) -> bool {
    if let SV::Hidden(v) = &spec.v {
        return match real {
            AVP::Hidden(h) => h.attribute_type == spec.t && bytes_eq(&h.value, v),
            _ => false,
        };
    }
    macro_rules! arm {
        ($var:ident, $x:ident, $pat:pat => $e:expr) => {
            match (real, &spec.v) {
                (AVP::$var($x), $pat) => $e,
                _ => false,
            }
        };
    }
    match spec.t {
        0 => arm!(MessageType, m, SV::MessageType(c) => message_type_number(m) == *c),
        1 => arm!(ResultCode, r, SV::ResultCode { code, err } => {
            let c: u16 = r.code.into();
            c == *code
                && match (&r.error, err) {
                    (None, None) => true,
                    (Some(re), Some((e, m))) => error_type_number(&re.error_type) == *e && opt_str_eq(&re.error_message, *m),
                    _ => false,
                }
        }),
        2 => arm!(ProtocolVersion, p, SV::ProtocolVersion(v, r) => p.version == *v && p.revision == *r),
        3 => arm!(FramingCapabilities, x, SV::Mask(w) => (x.is_async_framing_supported(), x.is_sync_framing_supported()) == mask_bits(*w)),
        4 => arm!(BearerCapabilities, x, SV::Mask(w) => (x.is_analog_access_supported(), x.is_digital_access_supported()) == mask_bits(*w)),
        5 => arm!(TieBreaker, x, SV::U64(v) => x.value == *v),
        6 => arm!(FirmwareRevision, x, SV::U16(v) => x.value == *v),
        7 => arm!(HostName, x, SV::Bytes(v) => bytes_eq(&x.value, v)),
        8 => arm!(VendorName, x, SV::Str(v) => bytes_eq(x.value.as_bytes(), v)),
        9 => arm!(AssignedTunnelId, x, SV::U16(v) => x.value == *v),
        10 => arm!(ReceiveWindowSize, x, SV::U16(v) => x.value == *v),
        11 => arm!(Challenge, x, SV::Bytes(v) => bytes_eq(&x.value, v)),
        12 => arm!(Q931CauseCode, x, SV::Q931 { code, msg, adv } => x.cause_code == *code && x.cause_msg == *msg && opt_str_eq(&x.advisory, *adv)),
        13 => arm!(ChallengeResponse, x, SV::Arr16(v) => bytes_eq(&x.value, v)),
        14 => arm!(AssignedSessionId, x, SV::U16(v) => x.value == *v),
        15 => arm!(CallSerialNumber, x, SV::U32(v) => x.value == *v),
        16 => arm!(MinimumBps, x, SV::U32(v) => x.value == *v),
        17 => arm!(MaximumBps, x, SV::U32(v) => x.value == *v),
        18 => arm!(BearerType, x, SV::Mask(w) => (x.is_analog_request(), x.is_digital_request()) == mask_bits(*w)),
        19 => arm!(FramingType, x, SV::Mask(w) => (x.is_analog_request(), x.is_digital_request()) == mask_bits(*w)),
        21 => arm!(CalledNumber, x, SV::Str(v) => bytes_eq(x.value.as_bytes(), v)),
        22 => arm!(CallingNumber, x, SV::Str(v) => bytes_eq(x.value.as_bytes(), v)),
        23 => arm!(SubAddress, x, SV::Str(v) => bytes_eq(x.value.as_bytes(), v)),
        24 => arm!(TxConnectSpeed, x, SV::U32(v) => x.value == *v),
        25 => arm!(PhysicalChannelId, x, SV::Arr4(v) => x.value == *v),
        26 => arm!(InitialReceivedLcpConfReq, x, SV::Bytes(v) => bytes_eq(&x.value, v)),
        27 => arm!(LastSentLcpConfReq, x, SV::Bytes(v) => bytes_eq(&x.value, v)),
        28 => arm!(LastReceivedLcpConfReq, x, SV::Bytes(v) => bytes_eq(&x.value, v)),
        29 => arm!(ProxyAuthenType, x, SV::ProxyAuthenType(c) => proxy_authen_type_number(x) == *c),
        30 => arm!(ProxyAuthenName, x, SV::Bytes(v) => bytes_eq(&x.value, v)),
        31 => arm!(ProxyAuthenChallenge, x, SV::Bytes(v) => bytes_eq(&x.value, v)),
        32 => arm!(ProxyAuthenId, x, SV::ProxyAuthenId(v) => x.value == *v),
        33 => arm!(ProxyAuthenResponse, x, SV::Bytes(v) => bytes_eq(&x.value, v)),
        34 => arm!(CallErrors, x, SV::CallErrors(v) => x.crc_errors == v[0]
            && x.framing_errors == v[1]
            && x.hardware_overruns == v[2]
            && x.buffer_overruns == v[3]
            && x.timeout_errors == v[4]
            && x.alignment_errors == v[5]),
        35 => arm!(Accm, x, SV::Accm(s, r) => x.send_accm == *s && x.receive_accm == *r),
        36 => arm!(RandomVector, x, SV::Arr4(v) => x.value == *v),
        37 => arm!(PrivateGroupId, x, SV::Bytes(v) => bytes_eq(&x.value, v)),
        38 => arm!(RxConnectSpeed, x, SV::U32(v) => x.value == *v),
        39 => arm!(SequencingRequired, _x, SV::Empty => true),
        _ => false,
    }
}

/// Does a real decode result match a specified one?
pub fn result_matches(real: &Result<AVP, DE>, spec: &SpecLeaf) -> bool {
    match real {
        Ok(a) => spec.ok && same(a, &spec.v),
        Err(e) => {
            !spec.ok
                && match &spec.exact {
                    Some(x) => e == x,
                    None => true,
                }
        }
    }
}

fn opt_bytes_eq(a: Option<&[u8]>, b: Option<&[u8]>) -> bool {
    match (a, b) {
        (None, None) => true,
        (Some(x), Some(y)) => bytes_eq(x, y),
        _ => false,
    }
}

/// Equality of two specified values.
pub fn sv_eq(a: &SpecAvp, b: &SpecAvp) -> bool {
    a.t == b.t
        && match (&a.v, &b.v) {
            (SV::MessageType(x), SV::MessageType(y)) => x == y,
            (SV::ResultCode { code: c1, err: e1 }, SV::ResultCode { code: c2, err: e2 }) => {
                c1 == c2
                    && match (e1, e2) {
                        (None, None) => true,
                        (Some((x, m)), Some((y, k))) => x == y && opt_bytes_eq(*m, *k),
                        _ => false,
                    }
            }
            (SV::ProtocolVersion(a1, a2), SV::ProtocolVersion(b1, b2)) => a1 == b1 && a2 == b2,
            (SV::Mask(x), SV::Mask(y)) => x == y,
            (SV::U16(x), SV::U16(y)) => x == y,
            (SV::U32(x), SV::U32(y)) => x == y,
            (SV::U64(x), SV::U64(y)) => x == y,
            (SV::Bytes(x), SV::Bytes(y)) => bytes_eq(x, y),
            (SV::Str(x), SV::Str(y)) => bytes_eq(x, y),
            (SV::Arr4(x), SV::Arr4(y)) => x == y,
            (SV::Arr16(x), SV::Arr16(y)) => bytes_eq(x, y),
            (SV::Q931 { code: c1, msg: m1, adv: a1 }, SV::Q931 { code: c2, msg: m2, adv: a2 }) => {
                c1 == c2 && m1 == m2 && opt_bytes_eq(*a1, *a2)
            }
            (SV::ProxyAuthenType(x), SV::ProxyAuthenType(y)) => x == y,
            (SV::ProxyAuthenId(x), SV::ProxyAuthenId(y)) => x == y,
            (SV::CallErrors(x), SV::CallErrors(y)) => x == y,
            (SV::Accm(s1, r1), SV::Accm(s2, r2)) => s1 == s2 && r1 == r2,
            (SV::Empty, SV::Empty) => true,
            (SV::Hidden(x), SV::Hidden(y)) => bytes_eq(x, y),
            _ => false,
        }
}

// ---------------------------------------------------------------------------
// encoder side

/// Specified payload octets of an AVP value (reserved octets zero).
pub fn spec_payload(s: &SpecAvp, out: &mut Vec<u8>) {
    match &s.v {
        SV::MessageType(c) => out.extend_from_slice(&c.to_be_bytes()),
        SV::ResultCode { code, err } => {
            out.extend_from_slice(&code.to_be_bytes());
            if let Some((e, m)) = err {
                out.extend_from_slice(&e.to_be_bytes());
                if let Some(m) = m {
                    out.extend_from_slice(m);
                }
            }
        }
        SV::ProtocolVersion(v, r) => {
            out.push(*v);
            out.push(*r);
        }
        SV::Mask(w) => out.extend_from_slice(&w.to_be_bytes()),
        SV::U16(v) => out.extend_from_slice(&v.to_be_bytes()),
        SV::U32(v) => out.extend_from_slice(&v.to_be_bytes()),
        SV::U64(v) => out.extend_from_slice(&v.to_be_bytes()),
        SV::Bytes(b) | SV::Str(b) | SV::Hidden(b) => out.extend_from_slice(b),
        SV::Arr4(a) => out.extend_from_slice(a),
        SV::Arr16(a) => out.extend_from_slice(a),
        SV::Q931 { code, msg, adv } => {
            out.extend_from_slice(&code.to_be_bytes());
            out.push(*msg);
            if let Some(a) = adv {
                out.extend_from_slice(a);
            }
        }
        SV::ProxyAuthenType(c) => out.extend_from_slice(&c.to_be_bytes()),
        SV::ProxyAuthenId(v) => {
            out.push(0);
            out.push(*v);
        }
        SV::CallErrors(v) => {
            out.push(0);
            out.push(0);
            let mut i = 0;
            while i < 6 {
                out.extend_from_slice(&v[i].to_be_bytes());
                i += 1;
            }
        }
        SV::Accm(s, r) => {
            out.push(0);
            out.push(0);
            out.extend_from_slice(s);
            out.extend_from_slice(r);
        }
        SV::Empty | SV::Nothing => {}
    }
}

/// Specified wire image of one AVP record: first octet = two high length bits
/// in bits 6–7, M in bit 0 (always set by this encoder), H in bit 1 (hidden
/// AVPs only), bits 2–5 zero; second octet = low length bits; vendor id 0;
/// attribute type; payload.  Panics (like the encoder must) over 1023 octets.
pub fn spec_record(s: &SpecAvp, out: &mut Vec<u8>) {
    let mut payload = Vec::new();
    spec_payload(s, &mut payload);
    let total = payload.len() + 6;
    assert!(total <= 1023);
    let hidden = matches!(s.v, SV::Hidden(_));
    let o1 = ((((total >> 8) & 3) as u8) << 6) | 1 | if hidden { 2 } else { 0 };
    out.push(o1);
    out.push((total & 0xff) as u8);
    out.push(0);
    out.push(0);
    out.extend_from_slice(&s.t.to_be_bytes());
    out.extend_from_slice(&payload);
}

// ---------------------------------------------------------------------------
// record walker

#[derive(Clone, Copy, Debug)]
pub struct SpecHeader {
    pub mandatory: bool,
    pub hidden: bool,
    pub length: u16,
    pub vendor: u16,
    pub t: u16,
}

/// The 6-octet AVP header at `b[i..]` (caller guarantees 6 octets).
pub fn spec_header(b: &[u8], i: usize) -> SpecHeader {
    let o1 = b[i];
    SpecHeader {
        mandatory: o1 & 1 != 0,
        hidden: o1 & 2 != 0,
        length: (((o1 >> 6) as u16) << 8) | (b[i + 1] as u16),
        vendor: be16(b, i + 2),
        t: be16(b, i + 4),
    }
}

/// What the greedy walker must report for the record starting at `b[i..]`.
#[derive(Clone, Copy, Debug)]
pub enum RecKind {
    /// fewer than 6 octets remain: the list ends here, nothing is reported
    End,
    /// length field < 6 or record longer than what remains: one
    /// `InvalidAVPLength` error is reported and the list ends
    BadLength,
    /// vendor id ≠ 0: `UnsupportedVendorId(v)`, walking continues after the record
    Vendor(u16),
    /// H bit: opaque hidden AVP with these payload bounds
    Hidden { t: u16, start: usize, end: usize },
    /// ordinary AVP: payload bounds handed to the per-type decoder
    Plain { t: u16, start: usize, end: usize },
}

pub fn spec_record_at(b: &[u8], i: usize) -> (RecKind, usize) {
    let n = b.len();
    if n - i < 6 {
        return (RecKind::End, n);
    }
    let h = spec_header(b, i);
    let l = h.length as usize;
    if l < 6 || l > n - i {
        return (RecKind::BadLength, n);
    }
    let start = i + 6;
    let end = i + l;
    if h.vendor != 0 {
        return (RecKind::Vendor(h.vendor), end);
    }
    if h.hidden {
        return (RecKind::Hidden { t: h.t, start, end }, end);
    }
    (RecKind::Plain { t: h.t, start, end }, end)
}

/// Does `real` equal what the specification says about the record at `b[i..]`
/// (full stack: payload decoded by `spec_leaf`)?
pub fn record_result_matches(real: &Result<AVP, DE>, b: &[u8], kind: &RecKind) -> bool {
    match kind {
        RecKind::End => false,
        RecKind::BadLength => matches!(real, Err(DE::InvalidAVPLength(_))),
        RecKind::Vendor(v) => matches!(real, Err(DE::UnsupportedVendorId(x)) if x == v),
        RecKind::Hidden { t, start, end } => match real {
            Ok(a) => same(
                a,
                &SpecAvp {
                    t: *t,
                    v: SV::Hidden(&b[*start..*end]),
                },
            ),
            _ => false,
        },
        RecKind::Plain { t, start, end } => result_matches(real, &spec_leaf(*t, &b[*start..*end])),
    }
}
