//! Well-formed UTF-8 byte sequences, Unicode 15 §3.9 Table 3-7, as a one-pass
//! validator.  Used (a) as the specification of "payload is UTF-8", (b) as the
//! Kani stub for `core::str::from_utf8` in composite harnesses; the leaf
//! string harnesses prove it equal to the real `from_utf8` on every input of
//! the enumerated lengths.

pub fn is_utf8(b: &[u8]) -> bool {
    let n = b.len();
    let mut i = 0;
    while i < n {
        let c = b[i];
        if c < 0x80 {
            i += 1;
            continue;
        }
        // number of continuation octets and the admissible range of the first one
        let (k, lo, hi) = if c >= 0xC2 && c <= 0xDF {
            (1, 0x80u8, 0xBFu8)
        } else if c == 0xE0 {
            (2, 0xA0, 0xBF)
        } else if (c >= 0xE1 && c <= 0xEC) || c == 0xEE || c == 0xEF {
            (2, 0x80, 0xBF)
        } else if c == 0xED {
            (2, 0x80, 0x9F)
        } else if c == 0xF0 {
            (3, 0x90, 0xBF)
        } else if c >= 0xF1 && c <= 0xF3 {
            (3, 0x80, 0xBF)
        } else if c == 0xF4 {
            (3, 0x80, 0x8F)
        } else {
            return false;
        };
        if i + k >= n {
            return false;
        }
        let c1 = b[i + 1];
        if c1 < lo || c1 > hi {
            return false;
        }
        if k >= 2 {
            let c2 = b[i + 2];
            if c2 < 0x80 || c2 > 0xBF {
                return false;
            }
        }
        if k >= 3 {
            let c3 = b[i + 3];
            if c3 < 0x80 || c3 > 0xBF {
                return false;
            }
        }
        i += k + 1;
    }
    true
}
