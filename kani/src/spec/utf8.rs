//! Well-formed UTF-8 byte sequences, Unicode 15 §3.9 Table 3-7, as a
//! byte-at-a-time automaton (one loop iteration per octet, so the loop bound
//! is the slice length).  Used (a) as the specification of "payload is UTF-8",
//! (b) as the Kani stub for `core::str::from_utf8` in composite harnesses; the
//! leaf string harnesses compare it with the real `from_utf8` on every input
//! of the enumerated lengths.

pub fn is_utf8(b: &[u8]) -> bool {
    let n = b.len();
    // number of continuation octets still expected, and the admissible range
    // of the next one (only the first continuation octet is ever restricted)
    let mut need: u8 = 0;
    let mut lo: u8 = 0x80;
    let mut hi: u8 = 0xBF;
    let mut ok = true;
    let mut i = 0;
    while i < n {
        let c = b[i];
        if need == 0 {
            if c < 0x80 {
                // ASCII
            } else if c >= 0xC2 && c <= 0xDF {
                need = 1;
                lo = 0x80;
                hi = 0xBF;
            } else if c == 0xE0 {
                need = 2;
                lo = 0xA0;
                hi = 0xBF;
            } else if (c >= 0xE1 && c <= 0xEC) || c == 0xEE || c == 0xEF {
                need = 2;
                lo = 0x80;
                hi = 0xBF;
            } else if c == 0xED {
                need = 2;
                lo = 0x80;
                hi = 0x9F;
            } else if c == 0xF0 {
                need = 3;
                lo = 0x90;
                hi = 0xBF;
            } else if c >= 0xF1 && c <= 0xF3 {
                need = 3;
                lo = 0x80;
                hi = 0xBF;
            } else if c == 0xF4 {
                need = 3;
                lo = 0x80;
                hi = 0x8F;
            } else {
                ok = false;
            }
        } else {
            if c < lo || c > hi {
                ok = false;
            }
            need -= 1;
            lo = 0x80;
            hi = 0xBF;
        }
        i += 1;
    }
    ok && need == 0
}
