//! Message layer of the specification: flag word, data messages, control
//! message header, acceptance rule.  RFC 2661 §3.1 with the crate's LSB-first
//! bit numbering of the flag word read as one big-endian u16:
//! T = bit 8, L = bit 9, S = bit 12, O = bit 14, P = bit 15, Ver = bits 4–7,
//! reserved = {0,1,2,3,10,11,13}.

use super::be16;

pub const RESERVED_MASK: u16 = 0x2C0F;
pub const T_BIT: u16 = 0x0100;
pub const L_BIT: u16 = 0x0200;
pub const S_BIT: u16 = 0x1000;
pub const O_BIT: u16 = 0x4000;
pub const P_BIT: u16 = 0x8000;

#[derive(Clone, Copy, Debug)]
pub struct SpecFlags {
    pub control: bool,
    pub has_length: bool,
    pub has_ns_nr: bool,
    pub has_offset: bool,
    pub priority: bool,
    pub version: u8,
    pub reserved_set: bool,
}

pub fn spec_flags(w: u16) -> SpecFlags {
    SpecFlags {
        control: w & T_BIT != 0,
        has_length: w & L_BIT != 0,
        has_ns_nr: w & S_BIT != 0,
        has_offset: w & O_BIT != 0,
        priority: w & P_BIT != 0,
        version: ((w >> 4) & 0xf) as u8,
        reserved_set: w & RESERVED_MASK != 0,
    }
}

/// Flag word the encoder must emit.
pub fn spec_flag_word(control: bool, l: bool, s: bool, o: bool, p: bool) -> u16 {
    let mut w = 2u16 << 4;
    if control {
        w |= T_BIT;
    }
    if l {
        w |= L_BIT;
    }
    if s {
        w |= S_BIT;
    }
    if o {
        w |= O_BIT;
    }
    if p {
        w |= P_BIT;
    }
    w
}

#[derive(Clone, Copy, Debug)]
pub struct Opts {
    pub reserved: bool,
    pub version: bool,
    pub unused: bool,
}

/// Specified outcome of the checks that depend on the flag word alone.
#[derive(Clone, Copy, Debug, PartialEq, Eq)]
pub enum Early {
    /// version check enabled and nibble ≠ 2
    BadVersion(u8),
    /// reserved check enabled and a reserved bit set
    BadReserved,
    /// control message, unused check enabled, P set
    CtrlPriority,
    /// control message, unused check enabled, O set
    CtrlOffset,
    Pass,
}

pub fn spec_early(w: u16, o: Opts) -> Early {
    let f = spec_flags(w);
    if o.version && f.version != 2 {
        return Early::BadVersion(f.version);
    }
    if o.reserved && f.reserved_set {
        return Early::BadReserved;
    }
    if f.control && o.unused && f.priority {
        return Early::CtrlPriority;
    }
    if f.control && o.unused && f.has_offset {
        return Early::CtrlOffset;
    }
    Early::Pass
}

/// How many of the flag-word checks fail (to decide whether the input is a
/// single-fault one for C20).
pub fn early_fault_count(w: u16, o: Opts) -> u32 {
    let f = spec_flags(w);
    let mut k = 0;
    if o.version && f.version != 2 {
        k += 1;
    }
    if o.reserved && f.reserved_set {
        k += 1;
    }
    if f.control && o.unused && f.priority {
        k += 1;
    }
    if f.control && o.unused && f.has_offset {
        k += 1;
    }
    k
}

#[derive(Clone, Copy, Debug)]
pub struct SpecData {
    pub priority: bool,
    pub length: Option<u16>,
    pub tunnel_id: u16,
    pub session_id: u16,
    pub ns_nr: Option<(u16, u16)>,
    /// payload = b[start..end]
    pub start: usize,
    pub end: usize,
}

#[derive(Clone, Copy, Debug, PartialEq, Eq)]
pub enum DataErr {
    /// the offset-size field announces more pad octets than remain; carries it
    Offset(u16),
    /// any other rejection (truncated header, Length inconsistent, empty payload)
    Other,
}

/// Data message occupying `b` (flag word included, `b.len() >= 2`, T bit clear).
/// Layout: flags, [Length], Tunnel ID, Session ID, [Ns, Nr], [Offset Size,
/// pad × Offset Size], payload.  Length counts from the first flag octet.
pub fn spec_data(b: &[u8]) -> Result<SpecData, DataErr> {
    let n = b.len();
    let f = spec_flags(be16(b, 0));
    let mut i = 2;
    let mut need = 4;
    if f.has_length {
        need += 2;
    }
    if f.has_ns_nr {
        need += 4;
    }
    if f.has_offset {
        need += 2;
    }
    if n - i < need {
        return Err(DataErr::Other);
    }
    let length = if f.has_length {
        let l = be16(b, i);
        i += 2;
        Some(l)
    } else {
        None
    };
    let tunnel_id = be16(b, i);
    let session_id = be16(b, i + 2);
    i += 4;
    let ns_nr = if f.has_ns_nr {
        let v = (be16(b, i), be16(b, i + 2));
        i += 4;
        Some(v)
    } else {
        None
    };
    if f.has_offset {
        let o = be16(b, i);
        i += 2;
        if (o as usize) > n - i {
            return Err(DataErr::Offset(o));
        }
        i += o as usize;
    }
    let end = match length {
        Some(l) => {
            let l = l as usize;
            if l < i || l > n {
                return Err(DataErr::Other);
            }
            l
        }
        None => n,
    };
    if end == i {
        return Err(DataErr::Other);
    }
    Ok(SpecData {
        priority: f.priority,
        length,
        tunnel_id,
        session_id,
        ns_nr,
        start: i,
        end,
    })
}

#[derive(Clone, Copy, Debug)]
pub struct SpecCtrlHeader {
    pub length: u16,
    pub tunnel_id: u16,
    pub session_id: u16,
    pub ns: u16,
    pub nr: u16,
}

/// Control message header (after the flag-word checks passed).  `Ok` gives the
/// header; the AVP region is `b[12..length]`.
pub fn spec_ctrl_header(b: &[u8]) -> Result<SpecCtrlHeader, ()> {
    let n = b.len();
    let f = spec_flags(be16(b, 0));
    if !f.has_length || !f.has_ns_nr {
        return Err(());
    }
    if n < 12 {
        return Err(());
    }
    let length = be16(b, 2);
    if (length as usize) < 12 || (length as usize) > n {
        return Err(());
    }
    Ok(SpecCtrlHeader {
        length,
        tunnel_id: be16(b, 4),
        session_id: be16(b, 6),
        ns: be16(b, 8),
        nr: be16(b, 10),
    })
}
