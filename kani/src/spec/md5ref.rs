//! MD5 written from RFC 1321 (reference for the pinned `md5` dependency).

const S: [u32; 64] = [
    7, 12, 17, 22, 7, 12, 17, 22, 7, 12, 17, 22, 7, 12, 17, 22, 5, 9, 14, 20, 5, 9, 14, 20, 5, 9, 14, 20, 5, 9, 14,
    20, 4, 11, 16, 23, 4, 11, 16, 23, 4, 11, 16, 23, 4, 11, 16, 23, 6, 10, 15, 21, 6, 10, 15, 21, 6, 10, 15, 21, 6,
    10, 15, 21,
];

// T[i] = floor(2^32 * abs(sin(i+1))), RFC 1321 §3.4
const K: [u32; 64] = [
    0xd76aa478, 0xe8c7b756, 0x242070db, 0xc1bdceee, 0xf57c0faf, 0x4787c62a, 0xa8304613, 0xfd469501, 0x698098d8,
    0x8b44f7af, 0xffff5bb1, 0x895cd7be, 0x6b901122, 0xfd987193, 0xa679438e, 0x49b40821, 0xf61e2562, 0xc040b340,
    0x265e5a51, 0xe9b6c7aa, 0xd62f105d, 0x02441453, 0xd8a1e681, 0xe7d3fbc8, 0x21e1cde6, 0xc33707d6, 0xf4d50d87,
    0x455a14ed, 0xa9e3e905, 0xfcefa3f8, 0x676f02d9, 0x8d2a4c8a, 0xfffa3942, 0x8771f681, 0x6d9d6122, 0xfde5380c,
    0xa4beea44, 0x4bdecfa9, 0xf6bb4b60, 0xbebfbc70, 0x289b7ec6, 0xeaa127fa, 0xd4ef3085, 0x04881d05, 0xd9d4d039,
    0xe6db99e5, 0x1fa27cf8, 0xc4ac5665, 0xf4292244, 0x432aff97, 0xab9423a7, 0xfc93a039, 0x655b59c3, 0x8f0ccc92,
    0xffeff47d, 0x85845dd1, 0x6fa87e4f, 0xfe2ce6e0, 0xa3014314, 0x4e0811a1, 0xf7537e82, 0xbd3af235, 0x2ad7d2bb,
    0xeb86d391,
];

/// MD5 of a message of at most 55 octets (one 64-octet block after padding).
pub fn md5_one_block(msg: &[u8]) -> [u8; 16] {
    assert!(msg.len() <= 55);
    let mut block = [0u8; 64];
    let mut i = 0;
    while i < msg.len() {
        block[i] = msg[i];
        i += 1;
    }
    block[msg.len()] = 0x80;
    let bits = (msg.len() as u64) * 8;
    let lb = bits.to_le_bytes();
    let mut j = 0;
    while j < 8 {
        block[56 + j] = lb[j];
        j += 1;
    }
    let mut m = [0u32; 16];
    let mut w = 0;
    while w < 16 {
        m[w] = u32::from_le_bytes([block[4 * w], block[4 * w + 1], block[4 * w + 2], block[4 * w + 3]]);
        w += 1;
    }
    let (a0, b0, c0, d0) = (0x67452301u32, 0xefcdab89u32, 0x98badcfeu32, 0x10325476u32);
    let (mut a, mut b, mut c, mut d) = (a0, b0, c0, d0);
    let mut r = 0;
    while r < 64 {
        let (f, g) = if r < 16 {
            ((b & c) | (!b & d), r)
        } else if r < 32 {
            ((d & b) | (!d & c), (5 * r + 1) % 16)
        } else if r < 48 {
            (b ^ c ^ d, (3 * r + 5) % 16)
        } else {
            (c ^ (b | !d), (7 * r) % 16)
        };
        let f2 = f.wrapping_add(a).wrapping_add(K[r]).wrapping_add(m[g]);
        a = d;
        d = c;
        c = b;
        b = b.wrapping_add(f2.rotate_left(S[r]));
        r += 1;
    }
    let out = [
        a0.wrapping_add(a),
        b0.wrapping_add(b),
        c0.wrapping_add(c),
        d0.wrapping_add(d),
    ];
    let mut res = [0u8; 16];
    let mut q = 0;
    while q < 4 {
        let le = out[q].to_le_bytes();
        res[4 * q] = le[0];
        res[4 * q + 1] = le[1];
        res[4 * q + 2] = le[2];
        res[4 * q + 3] = le[3];
        q += 1;
    }
    res
}
