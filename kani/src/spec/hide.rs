//! RFC 2661 §4.3 "Hiding of AVP Attribute Values", over an abstract hash
//! (`crate::stubs::hash16`: an uninterpreted function under Kani, MD5 natively).
//!
//! Crate convention taken as given (it is fixed by the crate's documented
//! error `InvalidOriginalAVPLength` and its 6..=1023 acceptance range): the
//! two-octet original-length subfield holds the length of the *whole* original
//! AVP, i.e. 6 + |value|.

use crate::stubs::hash16;

pub const CHUNK: usize = 16;

/// Hidden value for attribute type `t`, original value `payload`.
pub fn spec_hide(t: u16, payload: &[u8], secret: &[u8], rv: &[u8; 4], lp: &[u8], ap: &[u8; 16]) -> Vec<u8> {
    let mut plain: Vec<u8> = Vec::new();
    let total = (payload.len() + 6) as u16;
    plain.extend_from_slice(&total.to_be_bytes());
    plain.extend_from_slice(payload);
    plain.extend_from_slice(lp);
    let pad = (CHUNK - plain.len() % CHUNK) % CHUNK;
    plain.extend_from_slice(&ap[..pad]);
    let blocks = plain.len() / CHUNK;

    let mut key_in: Vec<u8> = Vec::new();
    key_in.extend_from_slice(&t.to_be_bytes());
    key_in.extend_from_slice(secret);
    key_in.extend_from_slice(rv);
    let mut key = hash16(&key_in);

    let mut out: Vec<u8> = Vec::new();
    let mut k = 0;
    while k < blocks {
        let mut j = 0;
        while j < CHUNK {
            out.push(plain[k * CHUNK + j] ^ key[j]);
            j += 1;
        }
        if k + 1 < blocks {
            let mut next_in: Vec<u8> = Vec::new();
            next_in.extend_from_slice(secret);
            next_in.extend_from_slice(&out[k * CHUNK..(k + 1) * CHUNK]);
            key = hash16(&next_in);
        }
        k += 1;
    }
    out
}

#[derive(Debug, Clone, Copy, PartialEq, Eq)]
pub enum RevealReject {
    Empty,
    Misaligned,
    BadOriginalLength(u16),
    /// original length announces more octets than the value holds
    TooLong,
}

/// Decrypt `value`; on success returns the plaintext and the bounds of the
/// original value inside it.
pub fn spec_reveal(t: u16, value: &[u8], secret: &[u8], rv: &[u8; 4]) -> Result<(Vec<u8>, usize, usize), RevealReject> {
    let n = value.len();
    if n == 0 {
        return Err(RevealReject::Empty);
    }
    if n % CHUNK != 0 {
        return Err(RevealReject::Misaligned);
    }
    let blocks = n / CHUNK;
    let mut plain: Vec<u8> = Vec::new();
    let mut k = 0;
    while k < blocks {
        let mut key_in: Vec<u8> = Vec::new();
        if k == 0 {
            key_in.extend_from_slice(&t.to_be_bytes());
            key_in.extend_from_slice(secret);
            key_in.extend_from_slice(rv);
        } else {
            key_in.extend_from_slice(secret);
            key_in.extend_from_slice(&value[(k - 1) * CHUNK..k * CHUNK]);
        }
        let key = hash16(&key_in);
        let mut j = 0;
        while j < CHUNK {
            plain.push(value[k * CHUNK + j] ^ key[j]);
            j += 1;
        }
        k += 1;
    }
    let l = ((plain[0] as u16) << 8) | plain[1] as u16;
    if l < 6 || l > 1023 {
        return Err(RevealReject::BadOriginalLength(l));
    }
    let plen = (l - 6) as usize;
    if plen > n - 2 {
        return Err(RevealReject::TooLong);
    }
    Ok((plain, 2, 2 + plen))
}

/// The §4.3 cipher applied to an already padded plaintext (a multiple of 16
/// octets): for fixed keys a bijection between plaintexts and hidden values.
pub fn spec_encrypt(t: u16, plain: &[u8], secret: &[u8], rv: &[u8; 4]) -> Vec<u8> {
    let blocks = plain.len() / CHUNK;
    let mut key_in: Vec<u8> = Vec::new();
    key_in.extend_from_slice(&t.to_be_bytes());
    key_in.extend_from_slice(secret);
    key_in.extend_from_slice(rv);
    let mut key = if blocks > 0 { hash16(&key_in) } else { [0u8; 16] };
    let mut out: Vec<u8> = Vec::new();
    let mut k = 0;
    while k < blocks {
        let mut j = 0;
        while j < CHUNK {
            out.push(plain[k * CHUNK + j] ^ key[j]);
            j += 1;
        }
        if k + 1 < blocks {
            let mut next_in: Vec<u8> = Vec::new();
            next_in.extend_from_slice(secret);
            next_in.extend_from_slice(&out[k * CHUNK..(k + 1) * CHUNK]);
            key = hash16(&next_in);
        }
        k += 1;
    }
    out
}
