//! Independent executable specification of the crate's L2TPv2 layout.
//!
//! Written from RFC 2661 (§3.1 header, §4.1 AVP format, §4.3 hiding, §4.4
//! AVP summary) plus the crate's documented bit numbering (the doc example
//! `0x13 0x20`, `flags/tests.rs`): the crate numbers the bits of every flag
//! octet from the least significant end.  Shares no code with rl2tp; the only
//! rl2tp items it names are public *data* types (`DecodeError`, `AVP`, the
//! `types::*` structs) needed to state what value is expected.

pub mod avp;
pub mod hide;
pub mod md5ref;
pub mod msg;
pub mod utf8;

/// Byte-wise slice equality as an explicit loop (so that the unwind bound is
/// the harness's own, not memcmp's).
pub fn bytes_eq(a: &[u8], b: &[u8]) -> bool {
    if a.len() != b.len() {
        return false;
    }
    let mut i = 0;
    while i < a.len() {
        if a[i] != b[i] {
            return false;
        }
        i += 1;
    }
    true
}

pub fn be16(p: &[u8], i: usize) -> u16 {
    ((p[i] as u16) << 8) | (p[i + 1] as u16)
}

pub fn be32(p: &[u8], i: usize) -> u32 {
    ((p[i] as u32) << 24) | ((p[i + 1] as u32) << 16) | ((p[i + 2] as u32) << 8) | (p[i + 3] as u32)
}

pub fn be64(p: &[u8], i: usize) -> u64 {
    ((be32(p, i) as u64) << 32) | (be32(p, i + 4) as u64)
}
