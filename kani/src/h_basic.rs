//! C17 (bitmask AVPs) and C16 (enumerated fields): complete over their
//! symbolic domain — one `u32` / `u16` / two `bool`s per query.

use crate::spec::avp as sa;
use crate::{check, nd, require, witness};
use rl2tp::avp::types as T;
use rl2tp::avp::AVP;
use rl2tp::common::{DecodeError as DE, SliceReader, VecWriter};

fn write_avp(a: &AVP) -> Vec<u8> {
    let mut w = VecWriter::new();
    a.write(&mut w);
    w.data
}

// ------------------------------------------------------------------ C17

//@ props=C17 tier=quick
pub fn c17_framing_capabilities_ctor() {
    let (x, y): (bool, bool) = (nd::any(), nd::any());
    let v = T::FramingCapabilities::new(x, y);
    check!(v.is_async_framing_supported() == x, "C17: FramingCapabilities::new(async, _) is reported by is_async_framing_supported");
    check!(v.is_sync_framing_supported() == y, "C17: FramingCapabilities::new(_, sync) is reported by is_sync_framing_supported");
    witness!(x && !y, "x_not_y");
    witness!(!x && y, "y_not_x");
}

//@ props=C17 tier=quick
pub fn c17_bearer_capabilities_ctor() {
    let (x, y): (bool, bool) = (nd::any(), nd::any());
    let v = T::BearerCapabilities::new(x, y);
    check!(v.is_digital_access_supported() == x, "C17: BearerCapabilities::new(digital, _) is reported by is_digital_access_supported");
    check!(v.is_analog_access_supported() == y, "C17: BearerCapabilities::new(_, analog) is reported by is_analog_access_supported");
    witness!(x && !y, "x_not_y");
    witness!(!x && y, "y_not_x");
}

//@ props=C17 tier=quick
pub fn c17_bearer_type_ctor() {
    let (x, y): (bool, bool) = (nd::any(), nd::any());
    let v = T::BearerType::new(x, y);
    check!(v.is_analog_request() == x, "C17: BearerType::new(analog, _) is reported by is_analog_request");
    check!(v.is_digital_request() == y, "C17: BearerType::new(_, digital) is reported by is_digital_request");
    witness!(x && !y, "x_not_y");
    witness!(!x && y, "y_not_x");
}

//@ props=C17 tier=quick
pub fn c17_framing_type_ctor() {
    let (x, y): (bool, bool) = (nd::any(), nd::any());
    let v = T::FramingType::new(x, y);
    check!(v.is_analog_request() == x, "C17: FramingType::new(first, _) is reported by the accessor named after the first parameter");
    check!(v.is_digital_request() == y, "C17: FramingType::new(_, second) is reported by the accessor named after the second parameter");
    witness!(x && !y, "x_not_y");
    witness!(!x && y, "y_not_x");
}

/// word from the wire → decode → accessors = own bit only; encode = same word;
/// flipping any other bit changes neither accessor.
macro_rules! mask_word_harness {
    ($name:ident, $ty:ident, $variant:ident, $num:expr, $a:ident, $b:ident) => {
        pub fn $name() {
            let w: u32 = nd::any();
            let flip: u8 = nd::any();
            nd::assume(flip < 32 && flip != 6 && flip != 7);
            let p = w.to_be_bytes();
            let v = T::$ty::try_read(&mut SliceReader::from(&p)).unwrap();
            check!(v.$a() == ((w >> 6) & 1 != 0), "C17: first accessor reflects bit 6 of the received word only");
            check!(v.$b() == ((w >> 7) & 1 != 0), "C17: second accessor reflects bit 7 of the received word only");
            let w2 = w ^ (1u32 << flip);
            let p2 = w2.to_be_bytes();
            let v2 = T::$ty::try_read(&mut SliceReader::from(&p2)).unwrap();
            check!(v2.$a() == v.$a() && v2.$b() == v.$b(), "C17: accessors do not depend on any other bit of the word");
            let out = write_avp(&AVP::$variant(v));
            require!(out.len() == 10, "C17: bitmask AVP encodes to 10 octets");
            check!(out[4] == 0 && out[5] == $num, "C17: bitmask AVP keeps its attribute type");
            check!([out[6], out[7], out[8], out[9]] == p, "C17: all 32 bits of a received bitmask survive decode then encode");
            // constructor produces exactly the two bits
            let (x, y): (bool, bool) = (nd::any(), nd::any());
            let c = write_avp(&AVP::$variant(T::$ty::new(x, y)));
            require!(c.len() == 10, "C17: bitmask AVP encodes to 10 octets");
            let cw = u32::from_be_bytes([c[6], c[7], c[8], c[9]]);
            check!(cw & !0xC0 == 0, "C17: constructor sets no bit besides its two flags");
            witness!(w & 0xffffff3f != 0 && v.$a() && !v.$b(), "other_bits_set");
        }
    };
}
//@ props=C17,C03,C10 tier=quick unwind=12
mask_word_harness!(c17_framing_capabilities_word, FramingCapabilities, FramingCapabilities, 3, is_async_framing_supported, is_sync_framing_supported);
//@ props=C17,C03,C10 tier=quick unwind=12
mask_word_harness!(c17_bearer_capabilities_word, BearerCapabilities, BearerCapabilities, 4, is_analog_access_supported, is_digital_access_supported);
//@ props=C17,C03,C10 tier=quick unwind=12
mask_word_harness!(c17_bearer_type_word, BearerType, BearerType, 18, is_analog_request, is_digital_request);
//@ props=C17,C03,C10 tier=quick unwind=12
mask_word_harness!(c17_framing_type_word, FramingType, FramingType, 19, is_analog_request, is_digital_request);

// ------------------------------------------------------------------ C16

//@ props=C16,C05,C20,C01 tier=quick unwind=12
pub fn c16_message_type_codes() {
    let x: u16 = nd::any();
    let p = x.to_be_bytes();
    let r = T::MessageType::try_read(&mut SliceReader::from(&p));
    let assigned = sa::message_type_assigned(x);
    match r {
        Ok(m) => {
            check!(assigned, "C16: only assigned message-type codes are accepted");
            check!(sa::message_type_number(&m) == x, "C16: message-type code maps to the RFC 2661 name of that number");
            let out = write_avp(&AVP::MessageType(m));
            check!(out.len() == 8 && out[6] == p[0] && out[7] == p[1], "C16: accepted message-type code re-encodes to the same number");
        }
        Err(e) => {
            check!(!assigned, "C16: every assigned message-type code is accepted");
            check!(e == DE::UnknownMessageType(x), "C16,C20: unassigned message-type code is reported as UnknownMessageType(code)");
        }
    }
    witness!(assigned && x == 16, "accept_16");
    witness!(!assigned && x == 5, "reject_5");
    witness!(!assigned && x == 13, "reject_13");
    witness!(!assigned && x > 16, "reject_high");
}

//@ props=C16,C05,C20,C01 tier=quick unwind=12
pub fn c16_error_type_codes() {
    let code: u16 = nd::any();
    let x: u16 = nd::any();
    let c = code.to_be_bytes();
    let e = x.to_be_bytes();
    let p = [c[0], c[1], e[0], e[1]];
    let r = T::ResultCode::try_read(&mut SliceReader::from(&p));
    match r {
        Ok(rc) => {
            check!(x <= 8, "C16: only error types 0..=8 are accepted");
            let raw: u16 = rc.code.into();
            check!(raw == code, "C16: result code value is kept raw");
            match &rc.error {
                Some(err) => {
                    check!(sa::error_type_number(&err.error_type) == x, "C16: error-type code maps to the RFC 2661 name of that number");
                    check!(err.error_message.is_none(), "C05: no error message when the payload ends after the error type");
                }
                None => check!(false, "C05: a 4-octet Result Code payload carries an error type"),
            }
            let out = write_avp(&AVP::ResultCode(rc));
            check!(out.len() == 10 && out[6] == p[0] && out[7] == p[1] && out[8] == p[2] && out[9] == p[3], "C16: accepted result/error codes re-encode to the same numbers");
        }
        Err(er) => {
            check!(x > 8, "C16: every error type 0..=8 is accepted");
            check!(er == DE::InvalidResultCodeErrorType(x), "C16,C20: unassigned error type is reported as InvalidResultCodeErrorType(code)");
        }
    }
    witness!(x == 8, "accept_8");
    witness!(x == 9, "reject_9");
}

//@ props=C16,C05,C01 tier=quick unwind=12
pub fn c16_proxy_authen_type_codes() {
    let x: u16 = nd::any();
    let p = x.to_be_bytes();
    let r = T::ProxyAuthenType::try_read(&mut SliceReader::from(&p));
    match r {
        Ok(v) => {
            check!(x <= 5, "C16: only proxy authen types 0..=5 are accepted");
            check!(sa::proxy_authen_type_number(&v) == x, "C16: proxy-authen-type code maps to the RFC 2661 name of that number");
            let out = write_avp(&AVP::ProxyAuthenType(v));
            check!(out.len() == 8 && out[6] == p[0] && out[7] == p[1], "C16: accepted proxy-authen-type code re-encodes to the same number");
        }
        Err(_) => check!(x > 5, "C16: every proxy authen type 0..=5 is accepted"),
    }
    witness!(x == 5, "accept_5");
    witness!(x == 6, "reject_6");
}

fn stop_ccn_number(c: &T::result_code::StopCcnCode) -> u16 {
    use T::result_code::StopCcnCode::*;
    match c {
        Reserved => 0,
        GeneralRequestToClearControlConnection => 1,
        GeneralError => 2,
        ControlChannelAlreadyExists => 3,
        RequesterNotAuthorizedToEstablishControlChannel => 4,
        RequesterProtocolVersionUnsupported => 5,
        RequesterShutdown => 6,
        FsmError => 7,
    }
}

fn cdn_number(c: &T::result_code::CdnCode) -> u16 {
    use T::result_code::CdnCode::*;
    match c {
        Reserved => 0,
        CallDisconnectedLossOfCarrier => 1,
        CallDisconnectedWithErrorCode => 2,
        CallDisconnectedAdministrative => 3,
        CallFailedTemporarilyUnavailable => 4,
        CallFailedPermanentlyUnavailable => 5,
        InvalidDestination => 6,
        CallFailedNoCarrier => 7,
        CallFailedBusySignal => 8,
        CallFailedNoDialTone => 9,
        CallEstablishTimeout => 10,
        CallNoFramingDetected => 11,
    }
}

//@ props=C16 tier=quick unwind=12
pub fn c16_result_code_values() {
    let x: u16 = nd::any();
    let cv = T::result_code::CodeValue::from(x);
    let raw: u16 = cv.into();
    check!(raw == x, "C16: result code value is kept raw");
    match cv.as_stop_ccn() {
        Ok(c) => {
            check!(x <= 7, "C16: only Stop-CCN result codes 0..=7 convert");
            check!(stop_ccn_number(&c) == x, "C16: Stop-CCN code maps to the RFC 2661 name of that number");
            let back: u16 = T::result_code::CodeValue::from(c).into();
            check!(back == x, "C16: named Stop-CCN code encodes to its RFC number");
        }
        Err(_) => check!(x > 7, "C16: every Stop-CCN result code 0..=7 converts"),
    }
    match cv.as_cdn() {
        Ok(c) => {
            check!(x <= 11, "C16: only CDN result codes 0..=11 convert");
            check!(cdn_number(&c) == x, "C16: CDN code maps to the RFC 2661 name of that number");
            let back: u16 = T::result_code::CodeValue::from(c).into();
            check!(back == x, "C16: named CDN code encodes to its RFC number");
        }
        Err(_) => check!(x > 11, "C16: every CDN result code 0..=11 converts"),
    }
    // raw value survives the wire
    let out = write_avp(&AVP::ResultCode(T::ResultCode { code: cv, error: None }));
    check!(out.len() == 8 && [out[6], out[7]] == x.to_be_bytes(), "C16: raw result code is encoded unchanged");
    witness!(x == 7, "stop_7");
    witness!(x == 8, "stop_8");
    witness!(x == 11, "cdn_11");
    witness!(x == 12, "cdn_12");
}

pub const HARNESSES: &[(&str, fn())] = &[
    ("c17_framing_capabilities_ctor", c17_framing_capabilities_ctor),
    ("c17_bearer_capabilities_ctor", c17_bearer_capabilities_ctor),
    ("c17_bearer_type_ctor", c17_bearer_type_ctor),
    ("c17_framing_type_ctor", c17_framing_type_ctor),
    ("c17_framing_capabilities_word", c17_framing_capabilities_word),
    ("c17_bearer_capabilities_word", c17_bearer_capabilities_word),
    ("c17_bearer_type_word", c17_bearer_type_word),
    ("c17_framing_type_word", c17_framing_type_word),
    ("c16_message_type_codes", c16_message_type_codes),
    ("c16_error_type_codes", c16_error_type_codes),
    ("c16_proxy_authen_type_codes", c16_proxy_authen_type_codes),
    ("c16_result_code_values", c16_result_code_values),
];
