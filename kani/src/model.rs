//! Harness-supplied implementations of the public `Reader` / `Writer` traits.

use rl2tp::common::{Reader, Writer};

/// Reference cursor over a slice that *monitors* the reader contract: every
/// unchecked request must lie within what remains (C02).  `bytes(n)` with
/// n > remaining is legal and answers `None` without moving.
#[derive(Clone, Copy, Debug)]
pub struct MonitorReader<'a> {
    pub data: &'a [u8],
    pub pos: usize,
    pub end: usize,
}

impl<'a> MonitorReader<'a> {
    pub fn from(data: &'a [u8]) -> Self {
        Self {
            data,
            pos: 0,
            end: data.len(),
        }
    }
    fn rem(&self) -> usize {
        self.end - self.pos
    }
}

impl<'a> Reader<&'a [u8]> for MonitorReader<'a> {
    fn is_empty(&self) -> bool {
        self.rem() == 0
    }
    fn len(&self) -> usize {
        self.rem()
    }
    fn subreader(&mut self, length: usize) -> Self {
        let ok = length <= self.rem();
        crate::check!(ok, "C02: subreader request exceeds remaining octets");
        let length = if ok { length } else { self.rem() };
        let r = MonitorReader {
            data: self.data,
            pos: self.pos,
            end: self.pos + length,
        };
        self.pos += length;
        r
    }
    fn bytes(&mut self, length: usize) -> Option<&'a [u8]> {
        if length > self.rem() {
            return None;
        }
        let s = &self.data[self.pos..self.pos + length];
        self.pos += length;
        Some(s)
    }
    unsafe fn read_u8_unchecked(&mut self) -> u8 {
        let ok = 1 <= self.rem();
        crate::check!(ok, "C02: read_u8 request exceeds remaining octets");
        if !ok {
            self.pos = self.end;
            return 0;
        }
        let v = self.data[self.pos];
        self.pos += 1;
        v
    }
    unsafe fn read_u16_be_unchecked(&mut self) -> u16 {
        let ok = 2 <= self.rem();
        crate::check!(ok, "C02: read_u16 request exceeds remaining octets");
        if !ok {
            self.pos = self.end;
            return 0;
        }
        let v = crate::spec::be16(self.data, self.pos);
        self.pos += 2;
        v
    }
    unsafe fn read_u32_be_unchecked(&mut self) -> u32 {
        let ok = 4 <= self.rem();
        crate::check!(ok, "C02: read_u32 request exceeds remaining octets");
        if !ok {
            self.pos = self.end;
            return 0;
        }
        let v = crate::spec::be32(self.data, self.pos);
        self.pos += 4;
        v
    }
    unsafe fn read_u64_be_unchecked(&mut self) -> u64 {
        let ok = 8 <= self.rem();
        crate::check!(ok, "C02: read_u64 request exceeds remaining octets");
        if !ok {
            self.pos = self.end;
            return 0;
        }
        let v = crate::spec::be64(self.data, self.pos);
        self.pos += 8;
        v
    }
    fn skip_bytes(&mut self, length: usize) {
        let ok = length <= self.rem();
        crate::check!(ok, "C02: skip request exceeds remaining octets");
        self.pos += if ok { length } else { self.rem() };
    }
}

pub const PATCH_MAX: usize = 4;

/// Length-only writer: stores nothing, counts octets from an arbitrary start
/// offset, records every positional overwrite.
#[derive(Clone, Debug)]
pub struct CountWriter {
    pub start: usize,
    pub written: usize,
    pub n_patches: usize,
    /// (offset, length, first two octets)
    pub patches: [(usize, usize, [u8; 2]); PATCH_MAX],
}

impl CountWriter {
    pub fn new(start: usize) -> Self {
        Self {
            start,
            written: 0,
            n_patches: 0,
            patches: [(0, 0, [0; 2]); PATCH_MAX],
        }
    }
}

impl Writer for CountWriter {
    fn is_empty(&self) -> bool {
        self.start + self.written == 0
    }
    fn len(&self) -> usize {
        self.start + self.written
    }
    fn write_bytes(&mut self, bytes: &[u8]) {
        self.written += bytes.len();
    }
    fn write_bytes_at(&mut self, bytes: &[u8], offset: usize) {
        assert!(self.n_patches < PATCH_MAX);
        let mut two = [0u8; 2];
        if !bytes.is_empty() {
            two[0] = bytes[0];
        }
        if bytes.len() > 1 {
            two[1] = bytes[1];
        }
        self.patches[self.n_patches] = (offset, bytes.len(), two);
        self.n_patches += 1;
    }
    fn write_u8(&mut self, _value: u8) {
        self.written += 1;
    }
    fn write_u16_be(&mut self, _value: u16) {
        self.written += 2;
    }
    fn write_u32_be(&mut self, _value: u32) {
        self.written += 4;
    }
    fn write_u64_be(&mut self, _value: u64) {
        self.written += 8;
    }
}
