//! Native replay twin driver.
//!
//!   replay <harness> <vals>     vals = comma-separated hex strings, one per
//!                               primitive draw, in draw order ("-" = none)
//!
//! Runs the harness body natively against the real crate (no stubs, real MD5,
//! real `from_utf8`).  Prints one line of JSON:
//!   {"outcome": "pass" | "check_failed" | "panic" | "assume_violated",
//!    "message": ..., "location": ..., "exhausted": bool, "covered": [...]}
//! Exit code 0 always (the runner reads the JSON); 3 = unknown harness.

#[cfg(kani)]
fn main() {}

#[cfg(not(kani))]
mod native {
use rl2tp_verif::nd;
use std::panic;
use std::sync::Mutex;

static LAST_PANIC: Mutex<Option<(String, String)>> = Mutex::new(None);

fn unhex(s: &str) -> Vec<u8> {
    (0..s.len() / 2).map(|i| u8::from_str_radix(&s[2 * i..2 * i + 2], 16).unwrap()).collect()
}

fn esc(s: &str) -> String {
    let mut o = String::new();
    for c in s.chars() {
        match c {
            '"' => o.push_str("\\\""),
            '\\' => o.push_str("\\\\"),
            '\n' => o.push_str("\\n"),
            c if (c as u32) < 0x20 => o.push_str(&format!("\\u{:04x}", c as u32)),
            c => o.push(c),
        }
    }
    o
}

pub fn main() {
    let args: Vec<String> = std::env::args().collect();
    if args.len() == 2 && args[1] == "--list" {
        for (n, _) in rl2tp_verif::all_harnesses() {
            println!("{n}");
        }
        return;
    }
    if args.len() < 3 {
        eprintln!("usage: replay <harness> <hex,hex,...>");
        std::process::exit(3);
    }
    let name = &args[1];
    let vals: Vec<Vec<u8>> = if args[2] == "-" || args[2].is_empty() {
        Vec::new()
    } else {
        args[2].split(',').map(unhex).collect()
    };
    let Some((_, f)) = rl2tp_verif::all_harnesses().into_iter().find(|(n, _)| n == name) else {
        eprintln!("unknown harness {name}");
        std::process::exit(3);
    };
    panic::set_hook(Box::new(|info| {
        let loc = info.location().map(|l| format!("{}:{}:{}", l.file(), l.line(), l.column())).unwrap_or_default();
        let msg = if let Some(s) = info.payload().downcast_ref::<&str>() {
            s.to_string()
        } else if let Some(s) = info.payload().downcast_ref::<String>() {
            s.clone()
        } else {
            String::new()
        };
        *LAST_PANIC.lock().unwrap() = Some((msg, loc));
    }));
    nd::native_load(vals);
    let r = panic::catch_unwind(f);
    let failed = nd::native_failed();
    let (outcome, message, location) = match r {
        Ok(()) => {
            if failed.is_empty() {
                ("pass", String::new(), String::new())
            } else {
                ("check_failed", failed[0].to_string(), String::new())
            }
        }
        Err(p) => {
            if p.downcast_ref::<nd::AssumeViolated>().is_some() {
                ("assume_violated", String::new(), String::new())
            } else {
                let (m, l) = LAST_PANIC.lock().unwrap().clone().unwrap_or_default();
                ("panic", m, l)
            }
        }
    };
    let covered: Vec<String> = nd::native_covered().iter().map(|c| format!("\"{}\"", esc(c))).collect();
    // the harness output must be the last line: the real crate may itself print
    let failed_js: Vec<String> = failed.iter().map(|c| format!("\"{}\"", esc(c))).collect();
    println!(
        "\nREPLAY-RESULT {{\"outcome\": \"{}\", \"message\": \"{}\", \"location\": \"{}\", \"exhausted\": {}, \"covered\": [{}], \"failed\": [{}]}}",
        outcome,
        esc(&message),
        esc(&location),
        nd::native_exhausted(),
        covered.join(", "),
        failed_js.join(", ")
    );
}
}

#[cfg(not(kani))]
fn main() {
    native::main()
}
