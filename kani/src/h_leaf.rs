//! L1 / L2 with concrete skeleton: one AVP record whose length octets and
//! attribute type are constants, payload symbolic — through the *real*
//! `AVP::try_read_greedy` (header parse, dispatch, per-type decoder, real
//! `from_utf8`), no stub.  `dec_<t>_<n>`: decode vs specification, both reader
//! instantiations, re-encode stability.  `enc_<t>_<n>`: symbolic value →
//! encoder vs specification encoder, append-only, lengths, decode back.

use crate::kinds::{from_spec, mk_spec, payload_len, with_local};
use crate::model::MonitorReader;
use crate::spec::avp as sa;
use crate::spec::bytes_eq;
use crate::{check, nd, require, witness};
use rl2tp::avp::AVP;
use rl2tp::common::{SliceReader, VecWriter};

pub const MAXREC: usize = 48;

fn build_record<const N: usize>(t: u16, buf: &mut [u8; MAXREC]) {
    let payload: [u8; N] = nd::any();
    buf[0] = 0x01; // M set, H clear, reserved clear, length high bits 0
    buf[1] = (6 + N) as u8;
    buf[4] = (t >> 8) as u8;
    buf[5] = (t & 0xff) as u8;
    let mut i = 0;
    while i < N {
        buf[6 + i] = payload[i];
        i += 1;
    }
}

/// One record through the real record walker with both reader
/// instantiations, compared with the specification.
pub fn dec_body<const N: usize>(t: u16) {
    let mut buf = [0u8; MAXREC];
    build_record::<N>(t, &mut buf);
    let rec = &buf[..6 + N];

    let mut r = SliceReader::from(rec);
    let res = AVP::try_read_greedy(&mut r);
    require!(res.len() == 1, "C05,C15: a single well-delimited record yields exactly one result");
    check!(rl2tp::common::Reader::len(&r) == 0, "C08: the record's octets are consumed exactly");
    let spec = sa::spec_leaf(t, &rec[6..]);
    check!(res[0].is_ok() == spec.ok, "C05: the per-type decoder accepts a payload iff the specification does");
    check!(sa::result_matches(&res[0], &spec), "C05,C20: decoded value / reported error equals the specified one");
    // C03 for Result Code (the one kind whose encoder does not fit a query,
    // P29): the round trip is split.  Under Kani the decode half is decided
    // for every payload — the octets the specification encoder emits for a
    // Result Code value (these octets, whenever `spec.ok`) decode to that value.
    // The native twin runs the whole round trip through the real encoder
    // instead, so a VIOLATION for C03 is only ever reported when encode then
    // decode really returns a different AVP.
    if t == 1 && spec.ok {
        #[cfg(kani)]
        check!(sa::result_matches(&res[0], &spec), "C03: the specified octets of a Result Code value (code, error type, message text) decode to that value (decode half of encode then decode)");
        #[cfg(not(kani))]
        {
            let a = from_spec(&spec.v);
            let mut w = VecWriter::new();
            a.write(&mut w);
            let back = AVP::try_read_greedy(&mut SliceReader::from(&w.data[..]));
            check!(back.len() == 1 && matches!(&back[0], Ok(b) if *b == a && sa::same(b, &spec.v)), "C03: Result Code (code, error type, message text): encode then decode returns the same AVP");
        }
        witness!(true, "result_code_accepted");
    }

    witness!(true, "completed");
    // the drop glue of heap AVPs whose discriminant is not constant would walk
    // all forty variants; leaking is irrelevant to every property
    std::mem::forget(res);
}

/// Same record through the contract-monitoring reader (C02).
pub fn decm_body<const N: usize>(t: u16) {
    let mut buf = [0u8; MAXREC];
    build_record::<N>(t, &mut buf);
    let rec = &buf[..6 + N];
    let spec = sa::spec_leaf(t, &rec[6..]);
    let mut m = MonitorReader::from(rec);
    let res_m = AVP::try_read_greedy(&mut m);
    require!(res_m.len() == 1, "C02: result is the same for every conforming reader (count)");
    check!(res_m[0].is_ok() == spec.ok, "C02: result is the same for every conforming reader (accept)");
    check!(sa::result_matches(&res_m[0], &spec), "C02: result is the same for every conforming reader (value)");
    check!(m.pos == rec.len(), "C02,C08: the monitoring reader is left at the end of the record");
    witness!(true, "completed");
    std::mem::forget(res_m);
}

/// The encoder's output for one AVP, re-assembled around a *constant*
/// skeleton: the six header octets are checked against the constants the
/// specification demands and then taken from those constants, so that what is
/// decoded next has a constant length and type in symbolic execution (for the
/// two niche-bearing kinds, Result Code and Q.931, the crate's enum dispatch is
/// not constant-folded and the writer content would otherwise be a 40-way
/// merge, DESIGN.md §2).  `total` is the specified size of the record.
pub fn reconcretize(data: &[u8], total: usize, t: u16, hidden: bool) -> [u8; MAXREC] {
    // No early return here: the result must be the constant skeleton on every
    // path (a join with another array would make the header octets symbolic
    // again), so out-of-range reads yield 0 and the size check reports them.
    let at = |i: usize| if i < data.len() { data[i] } else { 0 };
    check!(data.len() == total, "C06,C07: the encoder emits header plus payload of the specified size, nothing else");
    let o1: u8 = ((((total >> 8) & 3) as u8) << 6) | 1 | if hidden { 2 } else { 0 };
    check!(at(0) == o1, "C06,C07: first AVP octet = high length bits, mandatory bit set, hidden bit only on hidden AVPs, reserved bits zero");
    check!(at(1) == (total & 0xff) as u8, "C06,C07: the AVP's 10-bit length field equals the octets emitted for it");
    check!(at(2) == 0 && at(3) == 0, "C06: vendor id zero");
    check!(at(4) == (t >> 8) as u8 && at(5) == (t & 0xff) as u8, "C06,C16: the assigned attribute-type number is emitted");
    let mut buf = [0u8; MAXREC];
    buf[0] = o1;
    buf[1] = (total & 0xff) as u8;
    buf[4] = (t >> 8) as u8;
    buf[5] = (t & 0xff) as u8;
    let mut i = 6;
    while i < total {
        buf[i] = at(i);
        i += 1;
    }
    buf
}

/// Specified payload size of the canonical re-encoding of an accepted payload
/// of `n` octets of kind `t`.
fn canonical_len(t: u16, n: usize) -> usize {
    match sa::fixed_len(t) {
        Some(l) => l,
        None => {
            if t == 1 && n < 4 {
                2
            } else {
                n
            }
        }
    }
}

/// Decode → encode → decode → encode (C10), with the specification as the
/// go-between: the decoded value is shown equal to the specified one field for
/// field, a local value denoting the same is re-encoded (a value taken out of
/// the decoder's heap `Vec` has no constant shape in symbolic execution), and
/// so on for the second round.
pub fn renc_body<const N: usize>(t: u16) {
    let mut buf = [0u8; MAXREC];
    build_record::<N>(t, &mut buf);
    let rec = &buf[..6 + N];
    let spec = sa::spec_leaf(t, &rec[6..]);
    let res = AVP::try_read_greedy(&mut SliceReader::from(rec));
    require!(res.len() == 1, "C05,C15: a single well-delimited record yields exactly one result");
    check!(sa::result_matches(&res[0], &spec), "C05,C20: decoded value / reported error equals the specified one");
    nd::assume(spec.ok);
    let v = from_spec(&spec.v);
    check!(sa::same(&v, &spec.v), "C05: harness-built value denotes the specified value");
    let total = 6 + canonical_len(t, N);
    let mut w = VecWriter::new();
    v.write(&mut w);
    check!(w.data.len() <= rec.len(), "C10: re-encoding a decoded AVP never grows it");
    check!(6 + v.get_length() == total, "C07: 6 + get_length() equals the octets written for the AVP");
    let buf2 = reconcretize(&w.data, total, t, false);
    let rec2 = &buf2[..total];
    let mut expect = Vec::new();
    sa::spec_record(&spec.v, &mut expect);
    check!(bytes_eq(rec2, &expect), "C06,C10: re-encoded octets are the specified canonical record");
    let res2 = AVP::try_read_greedy(&mut SliceReader::from(rec2));
    require!(res2.len() == 1, "C10: the re-encoded AVP decodes to one result");
    let spec2 = sa::spec_leaf(t, &rec2[6..]);
    check!(spec2.ok && sa::result_matches(&res2[0], &spec2), "C10: the re-encoded AVP decodes to the specified value");
    check!(sa::sv_eq(&spec2.v, &spec.v), "C10: decoding the re-encoded AVP gives the same value");
    let v2 = from_spec(&spec2.v);
    let mut w2 = VecWriter::new();
    v2.write(&mut w2);
    let buf3 = reconcretize(&w2.data, total, t, false);
    check!(bytes_eq(&buf3[..total], rec2), "C10: encoding the second value reproduces the same octets");
    witness!(true, "completed");
    std::mem::forget(res);
    std::mem::forget(res2);
}

pub const PREFIX: usize = 3;

/// Symbolic value → encoder (after a symbolic prefix) vs specification
/// encoder; append-only; lengths; decode gives the value back.
pub fn enc_body(t: u16, n: usize) {
    let prefix: [u8; PREFIX] = nd::any();
    let sv = mk_spec(t, n);
    let a = from_spec(&sv);
    check!(sa::same(&a, &sv), "C03: harness-built value denotes the specified value");
    let total = 6 + payload_len(t, n);

    let mut w = VecWriter::new();
    w.data.extend_from_slice(&prefix);
    a.write(&mut w);

    require!(w.data.len() == PREFIX + total, "C07,C09: the encoder appends header plus payload, nothing else");
    check!(w.data[0] == prefix[0] && w.data[1] == prefix[1] && w.data[2] == prefix[2], "C09: octets already in the writer are untouched");
    check!(6 + a.get_length() == total, "C07: 6 + get_length() equals the octets written for the AVP");
    let buf = reconcretize(&w.data[PREFIX..], total, t, false);
    let rec = &buf[..total];
    let mut expect = Vec::new();
    sa::spec_record(&sv, &mut expect);
    check!(bytes_eq(rec, &expect), "C06,C09: encoder output equals the specification encoder's octets, independent of position");

    // encode into an empty writer: same octets (position independence)
    let mut w0 = VecWriter::new();
    a.write(&mut w0);
    let buf0 = reconcretize(&w0.data, total, t, false);
    check!(bytes_eq(&buf0[..total], rec), "C09: encoding after a prefix appends exactly what encoding into an empty writer produces");

    // C03: decode gives the value back
    let res = AVP::try_read_greedy(&mut SliceReader::from(rec));
    require!(res.len() == 1, "C03: an encoded AVP decodes to exactly one result");
    match &res[0] {
        Ok(b) => check!(sa::same(b, &sv), "C03: encode then decode returns the same AVP (field for field)"),
        Err(_) => check!(false, "C03: an encoded AVP decodes successfully"),
    }
    let mut it = res.into_iter();
    if let Some(Ok(heap_b)) = it.next() {
        let same_kind = with_local(t, heap_b, |b| check!(b == a, "C03: encode then decode returns the same AVP (crate equality)"));
        check!(same_kind, "C03: encode then decode returns an AVP of the same kind");
    }
    std::mem::forget(it);
    witness!(true, "completed");
}

macro_rules! dec {
    ($name:ident, $t:expr, $n:expr) => {
        pub fn $name() {
            dec_body::<$n>($t)
        }
    };
}

macro_rules! decm {
    ($name:ident, $t:expr, $n:expr) => {
        pub fn $name() {
            decm_body::<$n>($t)
        }
    };
}

macro_rules! renc {
    ($name:ident, $t:expr, $n:expr) => {
        pub fn $name() {
            renc_body::<$n>($t)
        }
    };
}

macro_rules! enc {
    ($name:ident, $t:expr, $n:expr) => {
        pub fn $name() {
            enc_body($t, $n)
        }
    };
}

// GENERATED BY gen.py — BEGIN
//@ props=C01,C05,C20 tier=thorough unwind=11 witness=completed
dec!(dec_0_0, 0, 0);
//@ props=C02 tier=thorough unwind=11
decm!(decm_0_0, 0, 0);
//@ props=C01,C05,C20 tier=quick unwind=11 witness=completed
dec!(dec_0_1, 0, 1);
//@ props=C02 tier=quick unwind=11
decm!(decm_0_1, 0, 1);
//@ props=C01,C05,C20 tier=quick unwind=11 witness=completed
dec!(dec_0_2, 0, 2);
//@ props=C02 tier=quick unwind=11
decm!(decm_0_2, 0, 2);
//@ props=C05,C10,C06,C07 tier=thorough unwind=11
renc!(renc_0_2, 0, 2);
//@ props=C01,C05 tier=thorough unwind=12 witness=completed
dec!(dec_0_3, 0, 3);
//@ props=C02 tier=thorough unwind=12
decm!(decm_0_3, 0, 3);
//@ props=C05,C10,C06,C07 tier=quick unwind=12
renc!(renc_0_3, 0, 3);
//@ props=C01,C05,C20 tier=thorough unwind=9 stubs=utf8 witness=completed
dec!(dec_1_0, 1, 0);
//@ props=C02 tier=thorough unwind=9 stubs=utf8
decm!(decm_1_0, 1, 0);
//@ props=C01,C05,C20 tier=quick unwind=10 stubs=utf8 witness=completed
dec!(dec_1_1, 1, 1);
//@ props=C02 tier=quick unwind=10 stubs=utf8
decm!(decm_1_1, 1, 1);
//@ props=C01,C05,C20,C03 tier=quick unwind=11 stubs=utf8 witness=completed,result_code_accepted
dec!(dec_1_2, 1, 2);
//@ props=C02 tier=quick unwind=11 stubs=utf8
decm!(decm_1_2, 1, 2);
//@ props=C01,C05,C03 tier=thorough unwind=12 stubs=utf8 witness=completed,result_code_accepted
dec!(dec_1_3, 1, 3);
//@ props=C02 tier=thorough unwind=12 stubs=utf8
decm!(decm_1_3, 1, 3);
//@ props=C01,C05,C20,C03 tier=quick unwind=13 stubs=utf8 witness=completed,result_code_accepted
dec!(dec_1_4, 1, 4);
//@ props=C02 tier=quick unwind=13 stubs=utf8
decm!(decm_1_4, 1, 4);
//@ props=C01,C05,C20,C03 tier=thorough unwind=14 stubs=utf8 witness=completed,result_code_accepted
dec!(dec_1_5, 1, 5);
//@ props=C02 tier=thorough unwind=14 stubs=utf8
decm!(decm_1_5, 1, 5);
//@ props=C01,C05,C20,C03 tier=quick unwind=16 stubs=utf8 witness=completed,result_code_accepted
dec!(dec_1_7, 1, 7);
//@ props=C02 tier=quick unwind=16 stubs=utf8
decm!(decm_1_7, 1, 7);
//@ props=C01,C05,C20,C03 tier=thorough unwind=17 stubs=utf8 witness=completed,result_code_accepted
dec!(dec_1_8, 1, 8);
//@ props=C02 tier=thorough unwind=17 stubs=utf8
decm!(decm_1_8, 1, 8);
//@ props=C01,C05,C20 tier=thorough unwind=11 witness=completed
dec!(dec_2_0, 2, 0);
//@ props=C02 tier=thorough unwind=11
decm!(decm_2_0, 2, 0);
//@ props=C01,C05,C20 tier=quick unwind=11 witness=completed
dec!(dec_2_1, 2, 1);
//@ props=C02 tier=quick unwind=11
decm!(decm_2_1, 2, 1);
//@ props=C01,C05,C20 tier=quick unwind=11 witness=completed
dec!(dec_2_2, 2, 2);
//@ props=C02 tier=quick unwind=11
decm!(decm_2_2, 2, 2);
//@ props=C05,C10,C06,C07 tier=thorough unwind=11
renc!(renc_2_2, 2, 2);
//@ props=C01,C05 tier=thorough unwind=12 witness=completed
dec!(dec_2_3, 2, 3);
//@ props=C02 tier=thorough unwind=12
decm!(decm_2_3, 2, 3);
//@ props=C05,C10,C06,C07 tier=quick unwind=12
renc!(renc_2_3, 2, 3);
//@ props=C01,C05,C20 tier=thorough unwind=13 witness=completed
dec!(dec_3_0, 3, 0);
//@ props=C02 tier=thorough unwind=13
decm!(decm_3_0, 3, 0);
//@ props=C01,C05,C20 tier=quick unwind=13 witness=completed
dec!(dec_3_3, 3, 3);
//@ props=C02 tier=quick unwind=13
decm!(decm_3_3, 3, 3);
//@ props=C01,C05,C20 tier=quick unwind=13 witness=completed
dec!(dec_3_4, 3, 4);
//@ props=C02 tier=quick unwind=13
decm!(decm_3_4, 3, 4);
//@ props=C05,C10,C06,C07 tier=thorough unwind=13
renc!(renc_3_4, 3, 4);
//@ props=C01,C05 tier=thorough unwind=14 witness=completed
dec!(dec_3_5, 3, 5);
//@ props=C02 tier=thorough unwind=14
decm!(decm_3_5, 3, 5);
//@ props=C05,C10,C06,C07 tier=quick unwind=14
renc!(renc_3_5, 3, 5);
//@ props=C01,C05,C20 tier=thorough unwind=13 witness=completed
dec!(dec_4_0, 4, 0);
//@ props=C02 tier=thorough unwind=13
decm!(decm_4_0, 4, 0);
//@ props=C01,C05,C20 tier=quick unwind=13 witness=completed
dec!(dec_4_3, 4, 3);
//@ props=C02 tier=quick unwind=13
decm!(decm_4_3, 4, 3);
//@ props=C01,C05,C20 tier=quick unwind=13 witness=completed
dec!(dec_4_4, 4, 4);
//@ props=C02 tier=quick unwind=13
decm!(decm_4_4, 4, 4);
//@ props=C05,C10,C06,C07 tier=thorough unwind=13
renc!(renc_4_4, 4, 4);
//@ props=C01,C05 tier=thorough unwind=14 witness=completed
dec!(dec_4_5, 4, 5);
//@ props=C02 tier=thorough unwind=14
decm!(decm_4_5, 4, 5);
//@ props=C05,C10,C06,C07 tier=quick unwind=14
renc!(renc_4_5, 4, 5);
//@ props=C01,C05,C20 tier=thorough unwind=17 witness=completed
dec!(dec_5_0, 5, 0);
//@ props=C02 tier=thorough unwind=17
decm!(decm_5_0, 5, 0);
//@ props=C01,C05,C20 tier=quick unwind=17 witness=completed
dec!(dec_5_7, 5, 7);
//@ props=C02 tier=quick unwind=17
decm!(decm_5_7, 5, 7);
//@ props=C01,C05,C20 tier=quick unwind=17 witness=completed
dec!(dec_5_8, 5, 8);
//@ props=C02 tier=quick unwind=17
decm!(decm_5_8, 5, 8);
//@ props=C05,C10,C06,C07 tier=thorough unwind=17
renc!(renc_5_8, 5, 8);
//@ props=C01,C05 tier=thorough unwind=18 witness=completed
dec!(dec_5_9, 5, 9);
//@ props=C02 tier=thorough unwind=18
decm!(decm_5_9, 5, 9);
//@ props=C05,C10,C06,C07 tier=quick unwind=18
renc!(renc_5_9, 5, 9);
//@ props=C01,C05,C20 tier=thorough unwind=11 witness=completed
dec!(dec_6_0, 6, 0);
//@ props=C02 tier=thorough unwind=11
decm!(decm_6_0, 6, 0);
//@ props=C01,C05,C20 tier=quick unwind=11 witness=completed
dec!(dec_6_1, 6, 1);
//@ props=C02 tier=quick unwind=11
decm!(decm_6_1, 6, 1);
//@ props=C01,C05,C20 tier=quick unwind=11 witness=completed
dec!(dec_6_2, 6, 2);
//@ props=C02 tier=quick unwind=11
decm!(decm_6_2, 6, 2);
//@ props=C05,C10,C06,C07 tier=thorough unwind=11
renc!(renc_6_2, 6, 2);
//@ props=C01,C05 tier=thorough unwind=12 witness=completed
dec!(dec_6_3, 6, 3);
//@ props=C02 tier=thorough unwind=12
decm!(decm_6_3, 6, 3);
//@ props=C05,C10,C06,C07 tier=quick unwind=12
renc!(renc_6_3, 6, 3);
//@ props=C01,C05,C20 tier=quick unwind=9 witness=completed
dec!(dec_7_0, 7, 0);
//@ props=C02 tier=quick unwind=9
decm!(decm_7_0, 7, 0);
//@ props=C01,C05,C20 tier=thorough unwind=10 witness=completed
dec!(dec_7_1, 7, 1);
//@ props=C02 tier=thorough unwind=10
decm!(decm_7_1, 7, 1);
//@ props=C05,C10,C06,C07 tier=thorough unwind=10
renc!(renc_7_1, 7, 1);
//@ props=C01,C05,C20 tier=quick unwind=12 witness=completed
dec!(dec_7_3, 7, 3);
//@ props=C02 tier=quick unwind=12
decm!(decm_7_3, 7, 3);
//@ props=C05,C10,C06,C07 tier=quick unwind=12
renc!(renc_7_3, 7, 3);
//@ props=C01,C05,C20 tier=thorough unwind=16 witness=completed
dec!(dec_7_7, 7, 7);
//@ props=C02 tier=thorough unwind=16
decm!(decm_7_7, 7, 7);
//@ props=C05,C10,C06,C07 tier=thorough unwind=16
renc!(renc_7_7, 7, 7);
//@ props=C01,C05,C20 tier=quick unwind=9 stubs=utf8 witness=completed
dec!(dec_8_0, 8, 0);
//@ props=C02 tier=quick unwind=9 stubs=utf8
decm!(decm_8_0, 8, 0);
//@ props=C01,C05,C20 tier=thorough unwind=10 stubs=utf8 witness=completed
dec!(dec_8_1, 8, 1);
//@ props=C02 tier=thorough unwind=10 stubs=utf8
decm!(decm_8_1, 8, 1);
//@ props=C05,C10,C06,C07 tier=thorough unwind=10 stubs=utf8
renc!(renc_8_1, 8, 1);
//@ props=C01,C05,C20 tier=thorough unwind=11 stubs=utf8 witness=completed
dec!(dec_8_2, 8, 2);
//@ props=C02 tier=thorough unwind=11 stubs=utf8
decm!(decm_8_2, 8, 2);
//@ props=C05,C10,C06,C07 tier=thorough unwind=11 stubs=utf8
renc!(renc_8_2, 8, 2);
//@ props=C01,C05,C20 tier=quick unwind=12 stubs=utf8 witness=completed
dec!(dec_8_3, 8, 3);
//@ props=C02 tier=quick unwind=12 stubs=utf8
decm!(decm_8_3, 8, 3);
//@ props=C05,C10,C06,C07 tier=quick unwind=12 stubs=utf8
renc!(renc_8_3, 8, 3);
//@ props=C01,C05,C20 tier=thorough unwind=13 stubs=utf8 witness=completed
dec!(dec_8_4, 8, 4);
//@ props=C02 tier=thorough unwind=13 stubs=utf8
decm!(decm_8_4, 8, 4);
//@ props=C05,C10,C06,C07 tier=thorough unwind=13 stubs=utf8
renc!(renc_8_4, 8, 4);
//@ props=C01,C05,C20 tier=thorough unwind=14 stubs=utf8 witness=completed
dec!(dec_8_5, 8, 5);
//@ props=C02 tier=thorough unwind=14 stubs=utf8
decm!(decm_8_5, 8, 5);
//@ props=C05,C10,C06,C07 tier=thorough unwind=14 stubs=utf8
renc!(renc_8_5, 8, 5);
//@ props=C01,C05,C20 tier=thorough unwind=15 stubs=utf8 witness=completed
dec!(dec_8_6, 8, 6);
//@ props=C02 tier=thorough unwind=15 stubs=utf8
decm!(decm_8_6, 8, 6);
//@ props=C05,C10,C06,C07 tier=thorough unwind=15 stubs=utf8
renc!(renc_8_6, 8, 6);
//@ props=C01,C05,C20 tier=thorough unwind=11 witness=completed
dec!(dec_9_0, 9, 0);
//@ props=C02 tier=thorough unwind=11
decm!(decm_9_0, 9, 0);
//@ props=C01,C05,C20 tier=quick unwind=11 witness=completed
dec!(dec_9_1, 9, 1);
//@ props=C02 tier=quick unwind=11
decm!(decm_9_1, 9, 1);
//@ props=C01,C05,C20 tier=quick unwind=11 witness=completed
dec!(dec_9_2, 9, 2);
//@ props=C02 tier=quick unwind=11
decm!(decm_9_2, 9, 2);
//@ props=C05,C10,C06,C07 tier=thorough unwind=11
renc!(renc_9_2, 9, 2);
//@ props=C01,C05 tier=thorough unwind=12 witness=completed
dec!(dec_9_3, 9, 3);
//@ props=C02 tier=thorough unwind=12
decm!(decm_9_3, 9, 3);
//@ props=C05,C10,C06,C07 tier=quick unwind=12
renc!(renc_9_3, 9, 3);
//@ props=C01,C05,C20 tier=thorough unwind=11 witness=completed
dec!(dec_10_0, 10, 0);
//@ props=C02 tier=thorough unwind=11
decm!(decm_10_0, 10, 0);
//@ props=C01,C05,C20 tier=quick unwind=11 witness=completed
dec!(dec_10_1, 10, 1);
//@ props=C02 tier=quick unwind=11
decm!(decm_10_1, 10, 1);
//@ props=C01,C05,C20 tier=quick unwind=11 witness=completed
dec!(dec_10_2, 10, 2);
//@ props=C02 tier=quick unwind=11
decm!(decm_10_2, 10, 2);
//@ props=C05,C10,C06,C07 tier=thorough unwind=11
renc!(renc_10_2, 10, 2);
//@ props=C01,C05 tier=thorough unwind=12 witness=completed
dec!(dec_10_3, 10, 3);
//@ props=C02 tier=thorough unwind=12
decm!(decm_10_3, 10, 3);
//@ props=C05,C10,C06,C07 tier=quick unwind=12
renc!(renc_10_3, 10, 3);
//@ props=C01,C05,C20 tier=quick unwind=9 witness=completed
dec!(dec_11_0, 11, 0);
//@ props=C02 tier=quick unwind=9
decm!(decm_11_0, 11, 0);
//@ props=C01,C05,C20 tier=thorough unwind=10 witness=completed
dec!(dec_11_1, 11, 1);
//@ props=C02 tier=thorough unwind=10
decm!(decm_11_1, 11, 1);
//@ props=C05,C10,C06,C07 tier=thorough unwind=10
renc!(renc_11_1, 11, 1);
//@ props=C01,C05,C20 tier=quick unwind=12 witness=completed
dec!(dec_11_3, 11, 3);
//@ props=C02 tier=quick unwind=12
decm!(decm_11_3, 11, 3);
//@ props=C05,C10,C06,C07 tier=quick unwind=12
renc!(renc_11_3, 11, 3);
//@ props=C01,C05,C20 tier=thorough unwind=16 witness=completed
dec!(dec_11_7, 11, 7);
//@ props=C02 tier=thorough unwind=16
decm!(decm_11_7, 11, 7);
//@ props=C05,C10,C06,C07 tier=thorough unwind=16
renc!(renc_11_7, 11, 7);
//@ props=C01,C05,C20 tier=thorough unwind=9 stubs=utf8 witness=completed
dec!(dec_12_0, 12, 0);
//@ props=C02 tier=thorough unwind=9 stubs=utf8
decm!(decm_12_0, 12, 0);
//@ props=C01,C05,C20 tier=quick unwind=11 stubs=utf8 witness=completed
dec!(dec_12_2, 12, 2);
//@ props=C02 tier=quick unwind=11 stubs=utf8
decm!(decm_12_2, 12, 2);
//@ props=C01,C05,C20 tier=quick unwind=12 stubs=utf8 witness=completed
dec!(dec_12_3, 12, 3);
//@ props=C02 tier=quick unwind=12 stubs=utf8
decm!(decm_12_3, 12, 3);
//@ props=C05,C10,C06,C07 tier=quick unwind=12 stubs=utf8
renc!(renc_12_3, 12, 3);
//@ props=C01,C05,C20 tier=thorough unwind=13 stubs=utf8 witness=completed
dec!(dec_12_4, 12, 4);
//@ props=C02 tier=thorough unwind=13 stubs=utf8
decm!(decm_12_4, 12, 4);
//@ props=C05,C10,C06,C07 tier=thorough unwind=13 stubs=utf8
renc!(renc_12_4, 12, 4);
//@ props=C01,C05,C20 tier=quick unwind=15 stubs=utf8 witness=completed
dec!(dec_12_6, 12, 6);
//@ props=C02 tier=quick unwind=15 stubs=utf8
decm!(decm_12_6, 12, 6);
//@ props=C05,C10,C06,C07 tier=quick unwind=15 stubs=utf8
renc!(renc_12_6, 12, 6);
//@ props=C01,C05,C20 tier=thorough unwind=16 stubs=utf8 witness=completed
dec!(dec_12_7, 12, 7);
//@ props=C02 tier=thorough unwind=16 stubs=utf8
decm!(decm_12_7, 12, 7);
//@ props=C05,C10,C06,C07 tier=thorough unwind=16 stubs=utf8
renc!(renc_12_7, 12, 7);
//@ props=C01,C05,C20 tier=thorough unwind=25 witness=completed
dec!(dec_13_0, 13, 0);
//@ props=C02 tier=thorough unwind=25
decm!(decm_13_0, 13, 0);
//@ props=C01,C05,C20 tier=quick unwind=25 witness=completed
dec!(dec_13_15, 13, 15);
//@ props=C02 tier=quick unwind=25
decm!(decm_13_15, 13, 15);
//@ props=C01,C05,C20 tier=quick unwind=25 witness=completed
dec!(dec_13_16, 13, 16);
//@ props=C02 tier=quick unwind=25
decm!(decm_13_16, 13, 16);
//@ props=C05,C10,C06,C07 tier=thorough unwind=25
renc!(renc_13_16, 13, 16);
//@ props=C01,C05 tier=thorough unwind=26 witness=completed
dec!(dec_13_17, 13, 17);
//@ props=C02 tier=thorough unwind=26
decm!(decm_13_17, 13, 17);
//@ props=C05,C10,C06,C07 tier=quick unwind=26
renc!(renc_13_17, 13, 17);
//@ props=C01,C05,C20 tier=thorough unwind=11 witness=completed
dec!(dec_14_0, 14, 0);
//@ props=C02 tier=thorough unwind=11
decm!(decm_14_0, 14, 0);
//@ props=C01,C05,C20 tier=quick unwind=11 witness=completed
dec!(dec_14_1, 14, 1);
//@ props=C02 tier=quick unwind=11
decm!(decm_14_1, 14, 1);
//@ props=C01,C05,C20 tier=quick unwind=11 witness=completed
dec!(dec_14_2, 14, 2);
//@ props=C02 tier=quick unwind=11
decm!(decm_14_2, 14, 2);
//@ props=C05,C10,C06,C07 tier=thorough unwind=11
renc!(renc_14_2, 14, 2);
//@ props=C01,C05 tier=thorough unwind=12 witness=completed
dec!(dec_14_3, 14, 3);
//@ props=C02 tier=thorough unwind=12
decm!(decm_14_3, 14, 3);
//@ props=C05,C10,C06,C07 tier=quick unwind=12
renc!(renc_14_3, 14, 3);
//@ props=C01,C05,C20 tier=thorough unwind=13 witness=completed
dec!(dec_15_0, 15, 0);
//@ props=C02 tier=thorough unwind=13
decm!(decm_15_0, 15, 0);
//@ props=C01,C05,C20 tier=quick unwind=13 witness=completed
dec!(dec_15_3, 15, 3);
//@ props=C02 tier=quick unwind=13
decm!(decm_15_3, 15, 3);
//@ props=C01,C05,C20 tier=quick unwind=13 witness=completed
dec!(dec_15_4, 15, 4);
//@ props=C02 tier=quick unwind=13
decm!(decm_15_4, 15, 4);
//@ props=C05,C10,C06,C07 tier=thorough unwind=13
renc!(renc_15_4, 15, 4);
//@ props=C01,C05 tier=thorough unwind=14 witness=completed
dec!(dec_15_5, 15, 5);
//@ props=C02 tier=thorough unwind=14
decm!(decm_15_5, 15, 5);
//@ props=C05,C10,C06,C07 tier=quick unwind=14
renc!(renc_15_5, 15, 5);
//@ props=C01,C05,C20 tier=thorough unwind=13 witness=completed
dec!(dec_16_0, 16, 0);
//@ props=C02 tier=thorough unwind=13
decm!(decm_16_0, 16, 0);
//@ props=C01,C05,C20 tier=quick unwind=13 witness=completed
dec!(dec_16_3, 16, 3);
//@ props=C02 tier=quick unwind=13
decm!(decm_16_3, 16, 3);
//@ props=C01,C05,C20 tier=quick unwind=13 witness=completed
dec!(dec_16_4, 16, 4);
//@ props=C02 tier=quick unwind=13
decm!(decm_16_4, 16, 4);
//@ props=C05,C10,C06,C07 tier=thorough unwind=13
renc!(renc_16_4, 16, 4);
//@ props=C01,C05 tier=thorough unwind=14 witness=completed
dec!(dec_16_5, 16, 5);
//@ props=C02 tier=thorough unwind=14
decm!(decm_16_5, 16, 5);
//@ props=C05,C10,C06,C07 tier=quick unwind=14
renc!(renc_16_5, 16, 5);
//@ props=C01,C05,C20 tier=thorough unwind=13 witness=completed
dec!(dec_17_0, 17, 0);
//@ props=C02 tier=thorough unwind=13
decm!(decm_17_0, 17, 0);
//@ props=C01,C05,C20 tier=quick unwind=13 witness=completed
dec!(dec_17_3, 17, 3);
//@ props=C02 tier=quick unwind=13
decm!(decm_17_3, 17, 3);
//@ props=C01,C05,C20 tier=quick unwind=13 witness=completed
dec!(dec_17_4, 17, 4);
//@ props=C02 tier=quick unwind=13
decm!(decm_17_4, 17, 4);
//@ props=C05,C10,C06,C07 tier=thorough unwind=13
renc!(renc_17_4, 17, 4);
//@ props=C01,C05 tier=thorough unwind=14 witness=completed
dec!(dec_17_5, 17, 5);
//@ props=C02 tier=thorough unwind=14
decm!(decm_17_5, 17, 5);
//@ props=C05,C10,C06,C07 tier=quick unwind=14
renc!(renc_17_5, 17, 5);
//@ props=C01,C05,C20 tier=thorough unwind=13 witness=completed
dec!(dec_18_0, 18, 0);
//@ props=C02 tier=thorough unwind=13
decm!(decm_18_0, 18, 0);
//@ props=C01,C05,C20 tier=quick unwind=13 witness=completed
dec!(dec_18_3, 18, 3);
//@ props=C02 tier=quick unwind=13
decm!(decm_18_3, 18, 3);
//@ props=C01,C05,C20 tier=quick unwind=13 witness=completed
dec!(dec_18_4, 18, 4);
//@ props=C02 tier=quick unwind=13
decm!(decm_18_4, 18, 4);
//@ props=C05,C10,C06,C07 tier=thorough unwind=13
renc!(renc_18_4, 18, 4);
//@ props=C01,C05 tier=thorough unwind=14 witness=completed
dec!(dec_18_5, 18, 5);
//@ props=C02 tier=thorough unwind=14
decm!(decm_18_5, 18, 5);
//@ props=C05,C10,C06,C07 tier=quick unwind=14
renc!(renc_18_5, 18, 5);
//@ props=C01,C05,C20 tier=thorough unwind=13 witness=completed
dec!(dec_19_0, 19, 0);
//@ props=C02 tier=thorough unwind=13
decm!(decm_19_0, 19, 0);
//@ props=C01,C05,C20 tier=quick unwind=13 witness=completed
dec!(dec_19_3, 19, 3);
//@ props=C02 tier=quick unwind=13
decm!(decm_19_3, 19, 3);
//@ props=C01,C05,C20 tier=quick unwind=13 witness=completed
dec!(dec_19_4, 19, 4);
//@ props=C02 tier=quick unwind=13
decm!(decm_19_4, 19, 4);
//@ props=C05,C10,C06,C07 tier=thorough unwind=13
renc!(renc_19_4, 19, 4);
//@ props=C01,C05 tier=thorough unwind=14 witness=completed
dec!(dec_19_5, 19, 5);
//@ props=C02 tier=thorough unwind=14
decm!(decm_19_5, 19, 5);
//@ props=C05,C10,C06,C07 tier=quick unwind=14
renc!(renc_19_5, 19, 5);
//@ props=C01,C05,C20 tier=thorough unwind=9 witness=completed
dec!(dec_20_0, 20, 0);
//@ props=C02 tier=thorough unwind=9
decm!(decm_20_0, 20, 0);
//@ props=C01,C05,C20 tier=quick unwind=11 witness=completed
dec!(dec_20_2, 20, 2);
//@ props=C02 tier=quick unwind=11
decm!(decm_20_2, 20, 2);
//@ props=C01,C05,C20 tier=quick unwind=9 stubs=utf8 witness=completed
dec!(dec_21_0, 21, 0);
//@ props=C02 tier=quick unwind=9 stubs=utf8
decm!(decm_21_0, 21, 0);
//@ props=C01,C05,C20 tier=thorough unwind=10 stubs=utf8 witness=completed
dec!(dec_21_1, 21, 1);
//@ props=C02 tier=thorough unwind=10 stubs=utf8
decm!(decm_21_1, 21, 1);
//@ props=C05,C10,C06,C07 tier=thorough unwind=10 stubs=utf8
renc!(renc_21_1, 21, 1);
//@ props=C01,C05,C20 tier=thorough unwind=11 stubs=utf8 witness=completed
dec!(dec_21_2, 21, 2);
//@ props=C02 tier=thorough unwind=11 stubs=utf8
decm!(decm_21_2, 21, 2);
//@ props=C05,C10,C06,C07 tier=thorough unwind=11 stubs=utf8
renc!(renc_21_2, 21, 2);
//@ props=C01,C05,C20 tier=quick unwind=12 stubs=utf8 witness=completed
dec!(dec_21_3, 21, 3);
//@ props=C02 tier=quick unwind=12 stubs=utf8
decm!(decm_21_3, 21, 3);
//@ props=C05,C10,C06,C07 tier=quick unwind=12 stubs=utf8
renc!(renc_21_3, 21, 3);
//@ props=C01,C05,C20 tier=thorough unwind=13 stubs=utf8 witness=completed
dec!(dec_21_4, 21, 4);
//@ props=C02 tier=thorough unwind=13 stubs=utf8
decm!(decm_21_4, 21, 4);
//@ props=C05,C10,C06,C07 tier=thorough unwind=13 stubs=utf8
renc!(renc_21_4, 21, 4);
//@ props=C01,C05,C20 tier=thorough unwind=14 stubs=utf8 witness=completed
dec!(dec_21_5, 21, 5);
//@ props=C02 tier=thorough unwind=14 stubs=utf8
decm!(decm_21_5, 21, 5);
//@ props=C05,C10,C06,C07 tier=thorough unwind=14 stubs=utf8
renc!(renc_21_5, 21, 5);
//@ props=C01,C05,C20 tier=thorough unwind=15 stubs=utf8 witness=completed
dec!(dec_21_6, 21, 6);
//@ props=C02 tier=thorough unwind=15 stubs=utf8
decm!(decm_21_6, 21, 6);
//@ props=C05,C10,C06,C07 tier=thorough unwind=15 stubs=utf8
renc!(renc_21_6, 21, 6);
//@ props=C01,C05,C20 tier=quick unwind=9 stubs=utf8 witness=completed
dec!(dec_22_0, 22, 0);
//@ props=C02 tier=quick unwind=9 stubs=utf8
decm!(decm_22_0, 22, 0);
//@ props=C01,C05,C20 tier=thorough unwind=10 stubs=utf8 witness=completed
dec!(dec_22_1, 22, 1);
//@ props=C02 tier=thorough unwind=10 stubs=utf8
decm!(decm_22_1, 22, 1);
//@ props=C05,C10,C06,C07 tier=thorough unwind=10 stubs=utf8
renc!(renc_22_1, 22, 1);
//@ props=C01,C05,C20 tier=thorough unwind=11 stubs=utf8 witness=completed
dec!(dec_22_2, 22, 2);
//@ props=C02 tier=thorough unwind=11 stubs=utf8
decm!(decm_22_2, 22, 2);
//@ props=C05,C10,C06,C07 tier=thorough unwind=11 stubs=utf8
renc!(renc_22_2, 22, 2);
//@ props=C01,C05,C20 tier=quick unwind=12 stubs=utf8 witness=completed
dec!(dec_22_3, 22, 3);
//@ props=C02 tier=quick unwind=12 stubs=utf8
decm!(decm_22_3, 22, 3);
//@ props=C05,C10,C06,C07 tier=quick unwind=12 stubs=utf8
renc!(renc_22_3, 22, 3);
//@ props=C01,C05,C20 tier=thorough unwind=13 stubs=utf8 witness=completed
dec!(dec_22_4, 22, 4);
//@ props=C02 tier=thorough unwind=13 stubs=utf8
decm!(decm_22_4, 22, 4);
//@ props=C05,C10,C06,C07 tier=thorough unwind=13 stubs=utf8
renc!(renc_22_4, 22, 4);
//@ props=C01,C05,C20 tier=thorough unwind=14 stubs=utf8 witness=completed
dec!(dec_22_5, 22, 5);
//@ props=C02 tier=thorough unwind=14 stubs=utf8
decm!(decm_22_5, 22, 5);
//@ props=C05,C10,C06,C07 tier=thorough unwind=14 stubs=utf8
renc!(renc_22_5, 22, 5);
//@ props=C01,C05,C20 tier=thorough unwind=15 stubs=utf8 witness=completed
dec!(dec_22_6, 22, 6);
//@ props=C02 tier=thorough unwind=15 stubs=utf8
decm!(decm_22_6, 22, 6);
//@ props=C05,C10,C06,C07 tier=thorough unwind=15 stubs=utf8
renc!(renc_22_6, 22, 6);
//@ props=C01,C05,C20 tier=quick unwind=9 stubs=utf8 witness=completed
dec!(dec_23_0, 23, 0);
//@ props=C02 tier=quick unwind=9 stubs=utf8
decm!(decm_23_0, 23, 0);
//@ props=C01,C05,C20 tier=thorough unwind=10 stubs=utf8 witness=completed
dec!(dec_23_1, 23, 1);
//@ props=C02 tier=thorough unwind=10 stubs=utf8
decm!(decm_23_1, 23, 1);
//@ props=C05,C10,C06,C07 tier=thorough unwind=10 stubs=utf8
renc!(renc_23_1, 23, 1);
//@ props=C01,C05,C20 tier=thorough unwind=11 stubs=utf8 witness=completed
dec!(dec_23_2, 23, 2);
//@ props=C02 tier=thorough unwind=11 stubs=utf8
decm!(decm_23_2, 23, 2);
//@ props=C05,C10,C06,C07 tier=thorough unwind=11 stubs=utf8
renc!(renc_23_2, 23, 2);
//@ props=C01,C05,C20 tier=quick unwind=12 stubs=utf8 witness=completed
dec!(dec_23_3, 23, 3);
//@ props=C02 tier=quick unwind=12 stubs=utf8
decm!(decm_23_3, 23, 3);
//@ props=C05,C10,C06,C07 tier=quick unwind=12 stubs=utf8
renc!(renc_23_3, 23, 3);
//@ props=C01,C05,C20 tier=thorough unwind=13 stubs=utf8 witness=completed
dec!(dec_23_4, 23, 4);
//@ props=C02 tier=thorough unwind=13 stubs=utf8
decm!(decm_23_4, 23, 4);
//@ props=C05,C10,C06,C07 tier=thorough unwind=13 stubs=utf8
renc!(renc_23_4, 23, 4);
//@ props=C01,C05,C20 tier=thorough unwind=14 stubs=utf8 witness=completed
dec!(dec_23_5, 23, 5);
//@ props=C02 tier=thorough unwind=14 stubs=utf8
decm!(decm_23_5, 23, 5);
//@ props=C05,C10,C06,C07 tier=thorough unwind=14 stubs=utf8
renc!(renc_23_5, 23, 5);
//@ props=C01,C05,C20 tier=thorough unwind=15 stubs=utf8 witness=completed
dec!(dec_23_6, 23, 6);
//@ props=C02 tier=thorough unwind=15 stubs=utf8
decm!(decm_23_6, 23, 6);
//@ props=C05,C10,C06,C07 tier=thorough unwind=15 stubs=utf8
renc!(renc_23_6, 23, 6);
//@ props=C01,C05,C20 tier=thorough unwind=13 witness=completed
dec!(dec_24_0, 24, 0);
//@ props=C02 tier=thorough unwind=13
decm!(decm_24_0, 24, 0);
//@ props=C01,C05,C20 tier=quick unwind=13 witness=completed
dec!(dec_24_3, 24, 3);
//@ props=C02 tier=quick unwind=13
decm!(decm_24_3, 24, 3);
//@ props=C01,C05,C20 tier=quick unwind=13 witness=completed
dec!(dec_24_4, 24, 4);
//@ props=C02 tier=quick unwind=13
decm!(decm_24_4, 24, 4);
//@ props=C05,C10,C06,C07 tier=thorough unwind=13
renc!(renc_24_4, 24, 4);
//@ props=C01,C05 tier=thorough unwind=14 witness=completed
dec!(dec_24_5, 24, 5);
//@ props=C02 tier=thorough unwind=14
decm!(decm_24_5, 24, 5);
//@ props=C05,C10,C06,C07 tier=quick unwind=14
renc!(renc_24_5, 24, 5);
//@ props=C01,C05,C20 tier=thorough unwind=13 witness=completed
dec!(dec_25_0, 25, 0);
//@ props=C02 tier=thorough unwind=13
decm!(decm_25_0, 25, 0);
//@ props=C01,C05,C20 tier=quick unwind=13 witness=completed
dec!(dec_25_3, 25, 3);
//@ props=C02 tier=quick unwind=13
decm!(decm_25_3, 25, 3);
//@ props=C01,C05,C20 tier=quick unwind=13 witness=completed
dec!(dec_25_4, 25, 4);
//@ props=C02 tier=quick unwind=13
decm!(decm_25_4, 25, 4);
//@ props=C05,C10,C06,C07 tier=thorough unwind=13
renc!(renc_25_4, 25, 4);
//@ props=C01,C05 tier=thorough unwind=14 witness=completed
dec!(dec_25_5, 25, 5);
//@ props=C02 tier=thorough unwind=14
decm!(decm_25_5, 25, 5);
//@ props=C05,C10,C06,C07 tier=quick unwind=14
renc!(renc_25_5, 25, 5);
//@ props=C01,C05,C20 tier=quick unwind=9 witness=completed
dec!(dec_26_0, 26, 0);
//@ props=C02 tier=quick unwind=9
decm!(decm_26_0, 26, 0);
//@ props=C01,C05,C20 tier=thorough unwind=10 witness=completed
dec!(dec_26_1, 26, 1);
//@ props=C02 tier=thorough unwind=10
decm!(decm_26_1, 26, 1);
//@ props=C05,C10,C06,C07 tier=thorough unwind=10
renc!(renc_26_1, 26, 1);
//@ props=C01,C05,C20 tier=quick unwind=12 witness=completed
dec!(dec_26_3, 26, 3);
//@ props=C02 tier=quick unwind=12
decm!(decm_26_3, 26, 3);
//@ props=C05,C10,C06,C07 tier=quick unwind=12
renc!(renc_26_3, 26, 3);
//@ props=C01,C05,C20 tier=thorough unwind=16 witness=completed
dec!(dec_26_7, 26, 7);
//@ props=C02 tier=thorough unwind=16
decm!(decm_26_7, 26, 7);
//@ props=C05,C10,C06,C07 tier=thorough unwind=16
renc!(renc_26_7, 26, 7);
//@ props=C01,C05,C20 tier=quick unwind=9 witness=completed
dec!(dec_27_0, 27, 0);
//@ props=C02 tier=quick unwind=9
decm!(decm_27_0, 27, 0);
//@ props=C01,C05,C20 tier=thorough unwind=10 witness=completed
dec!(dec_27_1, 27, 1);
//@ props=C02 tier=thorough unwind=10
decm!(decm_27_1, 27, 1);
//@ props=C05,C10,C06,C07 tier=thorough unwind=10
renc!(renc_27_1, 27, 1);
//@ props=C01,C05,C20 tier=quick unwind=12 witness=completed
dec!(dec_27_3, 27, 3);
//@ props=C02 tier=quick unwind=12
decm!(decm_27_3, 27, 3);
//@ props=C05,C10,C06,C07 tier=quick unwind=12
renc!(renc_27_3, 27, 3);
//@ props=C01,C05,C20 tier=thorough unwind=16 witness=completed
dec!(dec_27_7, 27, 7);
//@ props=C02 tier=thorough unwind=16
decm!(decm_27_7, 27, 7);
//@ props=C05,C10,C06,C07 tier=thorough unwind=16
renc!(renc_27_7, 27, 7);
//@ props=C01,C05,C20 tier=quick unwind=9 witness=completed
dec!(dec_28_0, 28, 0);
//@ props=C02 tier=quick unwind=9
decm!(decm_28_0, 28, 0);
//@ props=C01,C05,C20 tier=thorough unwind=10 witness=completed
dec!(dec_28_1, 28, 1);
//@ props=C02 tier=thorough unwind=10
decm!(decm_28_1, 28, 1);
//@ props=C05,C10,C06,C07 tier=thorough unwind=10
renc!(renc_28_1, 28, 1);
//@ props=C01,C05,C20 tier=quick unwind=12 witness=completed
dec!(dec_28_3, 28, 3);
//@ props=C02 tier=quick unwind=12
decm!(decm_28_3, 28, 3);
//@ props=C05,C10,C06,C07 tier=quick unwind=12
renc!(renc_28_3, 28, 3);
//@ props=C01,C05,C20 tier=thorough unwind=16 witness=completed
dec!(dec_28_7, 28, 7);
//@ props=C02 tier=thorough unwind=16
decm!(decm_28_7, 28, 7);
//@ props=C05,C10,C06,C07 tier=thorough unwind=16
renc!(renc_28_7, 28, 7);
//@ props=C01,C05,C20 tier=thorough unwind=11 witness=completed
dec!(dec_29_0, 29, 0);
//@ props=C02 tier=thorough unwind=11
decm!(decm_29_0, 29, 0);
//@ props=C01,C05,C20 tier=quick unwind=11 witness=completed
dec!(dec_29_1, 29, 1);
//@ props=C02 tier=quick unwind=11
decm!(decm_29_1, 29, 1);
//@ props=C01,C05,C20 tier=quick unwind=11 witness=completed
dec!(dec_29_2, 29, 2);
//@ props=C02 tier=quick unwind=11
decm!(decm_29_2, 29, 2);
//@ props=C05,C10,C06,C07 tier=thorough unwind=11
renc!(renc_29_2, 29, 2);
//@ props=C01,C05 tier=thorough unwind=12 witness=completed
dec!(dec_29_3, 29, 3);
//@ props=C02 tier=thorough unwind=12
decm!(decm_29_3, 29, 3);
//@ props=C05,C10,C06,C07 tier=quick unwind=12
renc!(renc_29_3, 29, 3);
//@ props=C01,C05,C20 tier=quick unwind=9 witness=completed
dec!(dec_30_0, 30, 0);
//@ props=C02 tier=quick unwind=9
decm!(decm_30_0, 30, 0);
//@ props=C01,C05,C20 tier=thorough unwind=10 witness=completed
dec!(dec_30_1, 30, 1);
//@ props=C02 tier=thorough unwind=10
decm!(decm_30_1, 30, 1);
//@ props=C05,C10,C06,C07 tier=thorough unwind=10
renc!(renc_30_1, 30, 1);
//@ props=C01,C05,C20 tier=quick unwind=12 witness=completed
dec!(dec_30_3, 30, 3);
//@ props=C02 tier=quick unwind=12
decm!(decm_30_3, 30, 3);
//@ props=C05,C10,C06,C07 tier=quick unwind=12
renc!(renc_30_3, 30, 3);
//@ props=C01,C05,C20 tier=thorough unwind=16 witness=completed
dec!(dec_30_7, 30, 7);
//@ props=C02 tier=thorough unwind=16
decm!(decm_30_7, 30, 7);
//@ props=C05,C10,C06,C07 tier=thorough unwind=16
renc!(renc_30_7, 30, 7);
//@ props=C01,C05,C20 tier=quick unwind=9 witness=completed
dec!(dec_31_0, 31, 0);
//@ props=C02 tier=quick unwind=9
decm!(decm_31_0, 31, 0);
//@ props=C01,C05,C20 tier=thorough unwind=10 witness=completed
dec!(dec_31_1, 31, 1);
//@ props=C02 tier=thorough unwind=10
decm!(decm_31_1, 31, 1);
//@ props=C05,C10,C06,C07 tier=thorough unwind=10
renc!(renc_31_1, 31, 1);
//@ props=C01,C05,C20 tier=quick unwind=12 witness=completed
dec!(dec_31_3, 31, 3);
//@ props=C02 tier=quick unwind=12
decm!(decm_31_3, 31, 3);
//@ props=C05,C10,C06,C07 tier=quick unwind=12
renc!(renc_31_3, 31, 3);
//@ props=C01,C05,C20 tier=thorough unwind=16 witness=completed
dec!(dec_31_7, 31, 7);
//@ props=C02 tier=thorough unwind=16
decm!(decm_31_7, 31, 7);
//@ props=C05,C10,C06,C07 tier=thorough unwind=16
renc!(renc_31_7, 31, 7);
//@ props=C01,C05,C20 tier=thorough unwind=11 witness=completed
dec!(dec_32_0, 32, 0);
//@ props=C02 tier=thorough unwind=11
decm!(decm_32_0, 32, 0);
//@ props=C01,C05,C20 tier=quick unwind=11 witness=completed
dec!(dec_32_1, 32, 1);
//@ props=C02 tier=quick unwind=11
decm!(decm_32_1, 32, 1);
//@ props=C01,C05,C20 tier=quick unwind=11 witness=completed
dec!(dec_32_2, 32, 2);
//@ props=C02 tier=quick unwind=11
decm!(decm_32_2, 32, 2);
//@ props=C05,C10,C06,C07 tier=thorough unwind=11
renc!(renc_32_2, 32, 2);
//@ props=C01,C05 tier=thorough unwind=12 witness=completed
dec!(dec_32_3, 32, 3);
//@ props=C02 tier=thorough unwind=12
decm!(decm_32_3, 32, 3);
//@ props=C05,C10,C06,C07 tier=quick unwind=12
renc!(renc_32_3, 32, 3);
//@ props=C01,C05,C20 tier=quick unwind=9 witness=completed
dec!(dec_33_0, 33, 0);
//@ props=C02 tier=quick unwind=9
decm!(decm_33_0, 33, 0);
//@ props=C01,C05,C20 tier=thorough unwind=10 witness=completed
dec!(dec_33_1, 33, 1);
//@ props=C02 tier=thorough unwind=10
decm!(decm_33_1, 33, 1);
//@ props=C05,C10,C06,C07 tier=thorough unwind=10
renc!(renc_33_1, 33, 1);
//@ props=C01,C05,C20 tier=quick unwind=12 witness=completed
dec!(dec_33_3, 33, 3);
//@ props=C02 tier=quick unwind=12
decm!(decm_33_3, 33, 3);
//@ props=C05,C10,C06,C07 tier=quick unwind=12
renc!(renc_33_3, 33, 3);
//@ props=C01,C05,C20 tier=thorough unwind=16 witness=completed
dec!(dec_33_7, 33, 7);
//@ props=C02 tier=thorough unwind=16
decm!(decm_33_7, 33, 7);
//@ props=C05,C10,C06,C07 tier=thorough unwind=16
renc!(renc_33_7, 33, 7);
//@ props=C01,C05,C20 tier=thorough unwind=35 witness=completed
dec!(dec_34_0, 34, 0);
//@ props=C02 tier=thorough unwind=35
decm!(decm_34_0, 34, 0);
//@ props=C01,C05,C20 tier=quick unwind=35 witness=completed
dec!(dec_34_25, 34, 25);
//@ props=C02 tier=quick unwind=35
decm!(decm_34_25, 34, 25);
//@ props=C01,C05,C20 tier=quick unwind=35 witness=completed
dec!(dec_34_26, 34, 26);
//@ props=C02 tier=quick unwind=35
decm!(decm_34_26, 34, 26);
//@ props=C05,C10,C06,C07 tier=thorough unwind=35
renc!(renc_34_26, 34, 26);
//@ props=C01,C05 tier=thorough unwind=36 witness=completed
dec!(dec_34_27, 34, 27);
//@ props=C02 tier=thorough unwind=36
decm!(decm_34_27, 34, 27);
//@ props=C05,C10,C06,C07 tier=quick unwind=36
renc!(renc_34_27, 34, 27);
//@ props=C01,C05,C20 tier=thorough unwind=19 witness=completed
dec!(dec_35_0, 35, 0);
//@ props=C02 tier=thorough unwind=19
decm!(decm_35_0, 35, 0);
//@ props=C01,C05,C20 tier=quick unwind=19 witness=completed
dec!(dec_35_9, 35, 9);
//@ props=C02 tier=quick unwind=19
decm!(decm_35_9, 35, 9);
//@ props=C01,C05,C20 tier=quick unwind=19 witness=completed
dec!(dec_35_10, 35, 10);
//@ props=C02 tier=quick unwind=19
decm!(decm_35_10, 35, 10);
//@ props=C05,C10,C06,C07 tier=thorough unwind=19
renc!(renc_35_10, 35, 10);
//@ props=C01,C05 tier=thorough unwind=20 witness=completed
dec!(dec_35_11, 35, 11);
//@ props=C02 tier=thorough unwind=20
decm!(decm_35_11, 35, 11);
//@ props=C05,C10,C06,C07 tier=quick unwind=20
renc!(renc_35_11, 35, 11);
//@ props=C01,C05,C20 tier=thorough unwind=13 witness=completed
dec!(dec_36_0, 36, 0);
//@ props=C02 tier=thorough unwind=13
decm!(decm_36_0, 36, 0);
//@ props=C01,C05,C20 tier=quick unwind=13 witness=completed
dec!(dec_36_3, 36, 3);
//@ props=C02 tier=quick unwind=13
decm!(decm_36_3, 36, 3);
//@ props=C01,C05,C20 tier=quick unwind=13 witness=completed
dec!(dec_36_4, 36, 4);
//@ props=C02 tier=quick unwind=13
decm!(decm_36_4, 36, 4);
//@ props=C05,C10,C06,C07 tier=thorough unwind=13
renc!(renc_36_4, 36, 4);
//@ props=C01,C05 tier=thorough unwind=14 witness=completed
dec!(dec_36_5, 36, 5);
//@ props=C02 tier=thorough unwind=14
decm!(decm_36_5, 36, 5);
//@ props=C05,C10,C06,C07 tier=quick unwind=14
renc!(renc_36_5, 36, 5);
//@ props=C01,C05,C20 tier=quick unwind=9 witness=completed
dec!(dec_37_0, 37, 0);
//@ props=C02 tier=quick unwind=9
decm!(decm_37_0, 37, 0);
//@ props=C01,C05,C20 tier=thorough unwind=10 witness=completed
dec!(dec_37_1, 37, 1);
//@ props=C02 tier=thorough unwind=10
decm!(decm_37_1, 37, 1);
//@ props=C05,C10,C06,C07 tier=thorough unwind=10
renc!(renc_37_1, 37, 1);
//@ props=C01,C05,C20 tier=quick unwind=12 witness=completed
dec!(dec_37_3, 37, 3);
//@ props=C02 tier=quick unwind=12
decm!(decm_37_3, 37, 3);
//@ props=C05,C10,C06,C07 tier=quick unwind=12
renc!(renc_37_3, 37, 3);
//@ props=C01,C05,C20 tier=thorough unwind=16 witness=completed
dec!(dec_37_7, 37, 7);
//@ props=C02 tier=thorough unwind=16
decm!(decm_37_7, 37, 7);
//@ props=C05,C10,C06,C07 tier=thorough unwind=16
renc!(renc_37_7, 37, 7);
//@ props=C01,C05,C20 tier=thorough unwind=13 witness=completed
dec!(dec_38_0, 38, 0);
//@ props=C02 tier=thorough unwind=13
decm!(decm_38_0, 38, 0);
//@ props=C01,C05,C20 tier=quick unwind=13 witness=completed
dec!(dec_38_3, 38, 3);
//@ props=C02 tier=quick unwind=13
decm!(decm_38_3, 38, 3);
//@ props=C01,C05,C20 tier=quick unwind=13 witness=completed
dec!(dec_38_4, 38, 4);
//@ props=C02 tier=quick unwind=13
decm!(decm_38_4, 38, 4);
//@ props=C05,C10,C06,C07 tier=thorough unwind=13
renc!(renc_38_4, 38, 4);
//@ props=C01,C05 tier=thorough unwind=14 witness=completed
dec!(dec_38_5, 38, 5);
//@ props=C02 tier=thorough unwind=14
decm!(decm_38_5, 38, 5);
//@ props=C05,C10,C06,C07 tier=quick unwind=14
renc!(renc_38_5, 38, 5);
//@ props=C01,C05,C20 tier=quick unwind=9 witness=completed
dec!(dec_39_0, 39, 0);
//@ props=C02 tier=quick unwind=9
decm!(decm_39_0, 39, 0);
//@ props=C05,C10,C06,C07 tier=thorough unwind=9
renc!(renc_39_0, 39, 0);
//@ props=C01,C05 tier=thorough unwind=10 witness=completed
dec!(dec_39_1, 39, 1);
//@ props=C02 tier=thorough unwind=10
decm!(decm_39_1, 39, 1);
//@ props=C05,C10,C06,C07 tier=quick unwind=10
renc!(renc_39_1, 39, 1);
//@ props=C01,C05,C20 tier=thorough unwind=9 witness=completed
dec!(dec_40_0, 40, 0);
//@ props=C02 tier=thorough unwind=9
decm!(decm_40_0, 40, 0);
//@ props=C01,C05,C20 tier=thorough unwind=11 witness=completed
dec!(dec_40_2, 40, 2);
//@ props=C02 tier=thorough unwind=11
decm!(decm_40_2, 40, 2);
//@ props=C01,C05,C20 tier=thorough unwind=9 witness=completed
dec!(dec_65535_0, 65535, 0);
//@ props=C02 tier=thorough unwind=9
decm!(decm_65535_0, 65535, 0);
//@ props=C01,C05,C20 tier=thorough unwind=11 witness=completed
dec!(dec_65535_2, 65535, 2);
//@ props=C02 tier=thorough unwind=11
decm!(decm_65535_2, 65535, 2);
//@ props=C03,C06,C07,C09 tier=quick unwind=14
enc!(enc_0_2, 0, 2);
//@ props=C03,C06,C07,C09 tier=quick unwind=14
enc!(enc_2_2, 2, 2);
//@ props=C03,C06,C07,C09 tier=quick unwind=16
enc!(enc_3_4, 3, 4);
//@ props=C03,C06,C07,C09 tier=quick unwind=16
enc!(enc_4_4, 4, 4);
//@ props=C03,C06,C07,C09 tier=quick unwind=20
enc!(enc_5_8, 5, 8);
//@ props=C03,C06,C07,C09 tier=quick unwind=14
enc!(enc_6_2, 6, 2);
//@ props=C03,C06,C07,C09 tier=thorough unwind=13
enc!(enc_7_1, 7, 1);
//@ props=C03,C06,C07,C09 tier=quick unwind=16
enc!(enc_7_4, 7, 4);
//@ props=C03,C06,C07,C09 tier=thorough unwind=21
enc!(enc_7_9, 7, 9);
//@ props=C03,C06,C07,C09 tier=thorough unwind=13 stubs=utf8
enc!(enc_8_1, 8, 1);
//@ props=C03,C06,C07,C09 tier=quick unwind=16 stubs=utf8
enc!(enc_8_4, 8, 4);
//@ props=C03,C06,C07,C09 tier=thorough unwind=18 stubs=utf8
enc!(enc_8_6, 8, 6);
//@ props=C03,C06,C07,C09 tier=quick unwind=14
enc!(enc_9_2, 9, 2);
//@ props=C03,C06,C07,C09 tier=quick unwind=14
enc!(enc_10_2, 10, 2);
//@ props=C03,C06,C07,C09 tier=thorough unwind=13
enc!(enc_11_1, 11, 1);
//@ props=C03,C06,C07,C09 tier=quick unwind=16
enc!(enc_11_4, 11, 4);
//@ props=C03,C06,C07,C09 tier=thorough unwind=21
enc!(enc_11_9, 11, 9);
//@ props=C03,C06,C07,C09 tier=quick unwind=15 stubs=utf8
enc!(enc_12_3, 12, 3);
//@ props=C03,C06,C07,C09 tier=thorough unwind=16 stubs=utf8
enc!(enc_12_4, 12, 4);
//@ props=C03,C06,C07,C09 tier=quick unwind=19 stubs=utf8
enc!(enc_12_7, 12, 7);
//@ props=C03,C06,C07,C09 tier=quick unwind=28
enc!(enc_13_16, 13, 16);
//@ props=C03,C06,C07,C09 tier=quick unwind=14
enc!(enc_14_2, 14, 2);
//@ props=C03,C06,C07,C09 tier=quick unwind=16
enc!(enc_15_4, 15, 4);
//@ props=C03,C06,C07,C09 tier=quick unwind=16
enc!(enc_16_4, 16, 4);
//@ props=C03,C06,C07,C09 tier=quick unwind=16
enc!(enc_17_4, 17, 4);
//@ props=C03,C06,C07,C09 tier=quick unwind=16
enc!(enc_18_4, 18, 4);
//@ props=C03,C06,C07,C09 tier=quick unwind=16
enc!(enc_19_4, 19, 4);
//@ props=C03,C06,C07,C09 tier=thorough unwind=13 stubs=utf8
enc!(enc_21_1, 21, 1);
//@ props=C03,C06,C07,C09 tier=quick unwind=16 stubs=utf8
enc!(enc_21_4, 21, 4);
//@ props=C03,C06,C07,C09 tier=thorough unwind=18 stubs=utf8
enc!(enc_21_6, 21, 6);
//@ props=C03,C06,C07,C09 tier=thorough unwind=13 stubs=utf8
enc!(enc_22_1, 22, 1);
//@ props=C03,C06,C07,C09 tier=quick unwind=16 stubs=utf8
enc!(enc_22_4, 22, 4);
//@ props=C03,C06,C07,C09 tier=thorough unwind=18 stubs=utf8
enc!(enc_22_6, 22, 6);
//@ props=C03,C06,C07,C09 tier=thorough unwind=13 stubs=utf8
enc!(enc_23_1, 23, 1);
//@ props=C03,C06,C07,C09 tier=quick unwind=16 stubs=utf8
enc!(enc_23_4, 23, 4);
//@ props=C03,C06,C07,C09 tier=thorough unwind=18 stubs=utf8
enc!(enc_23_6, 23, 6);
//@ props=C03,C06,C07,C09 tier=quick unwind=16
enc!(enc_24_4, 24, 4);
//@ props=C03,C06,C07,C09 tier=quick unwind=16
enc!(enc_25_4, 25, 4);
//@ props=C03,C06,C07,C09 tier=thorough unwind=13
enc!(enc_26_1, 26, 1);
//@ props=C03,C06,C07,C09 tier=quick unwind=16
enc!(enc_26_4, 26, 4);
//@ props=C03,C06,C07,C09 tier=thorough unwind=21
enc!(enc_26_9, 26, 9);
//@ props=C03,C06,C07,C09 tier=thorough unwind=13
enc!(enc_27_1, 27, 1);
//@ props=C03,C06,C07,C09 tier=quick unwind=16
enc!(enc_27_4, 27, 4);
//@ props=C03,C06,C07,C09 tier=thorough unwind=21
enc!(enc_27_9, 27, 9);
//@ props=C03,C06,C07,C09 tier=thorough unwind=13
enc!(enc_28_1, 28, 1);
//@ props=C03,C06,C07,C09 tier=quick unwind=16
enc!(enc_28_4, 28, 4);
//@ props=C03,C06,C07,C09 tier=thorough unwind=21
enc!(enc_28_9, 28, 9);
//@ props=C03,C06,C07,C09 tier=quick unwind=14
enc!(enc_29_2, 29, 2);
//@ props=C03,C06,C07,C09 tier=thorough unwind=13
enc!(enc_30_1, 30, 1);
//@ props=C03,C06,C07,C09 tier=quick unwind=16
enc!(enc_30_4, 30, 4);
//@ props=C03,C06,C07,C09 tier=thorough unwind=21
enc!(enc_30_9, 30, 9);
//@ props=C03,C06,C07,C09 tier=thorough unwind=13
enc!(enc_31_1, 31, 1);
//@ props=C03,C06,C07,C09 tier=quick unwind=16
enc!(enc_31_4, 31, 4);
//@ props=C03,C06,C07,C09 tier=thorough unwind=21
enc!(enc_31_9, 31, 9);
//@ props=C03,C06,C07,C09 tier=quick unwind=14
enc!(enc_32_2, 32, 2);
//@ props=C03,C06,C07,C09 tier=thorough unwind=13
enc!(enc_33_1, 33, 1);
//@ props=C03,C06,C07,C09 tier=quick unwind=16
enc!(enc_33_4, 33, 4);
//@ props=C03,C06,C07,C09 tier=thorough unwind=21
enc!(enc_33_9, 33, 9);
//@ props=C03,C06,C07,C09 tier=quick unwind=38
enc!(enc_34_26, 34, 26);
//@ props=C03,C06,C07,C09 tier=quick unwind=22
enc!(enc_35_10, 35, 10);
//@ props=C03,C06,C07,C09 tier=quick unwind=16
enc!(enc_36_4, 36, 4);
//@ props=C03,C06,C07,C09 tier=thorough unwind=13
enc!(enc_37_1, 37, 1);
//@ props=C03,C06,C07,C09 tier=quick unwind=16
enc!(enc_37_4, 37, 4);
//@ props=C03,C06,C07,C09 tier=thorough unwind=21
enc!(enc_37_9, 37, 9);
//@ props=C03,C06,C07,C09 tier=quick unwind=16
enc!(enc_38_4, 38, 4);
//@ props=C03,C06,C07,C09 tier=quick unwind=12
enc!(enc_39_0, 39, 0);

pub const HARNESSES: &[(&str, fn())] = &[
    ("dec_0_0", dec_0_0),
    ("decm_0_0", decm_0_0),
    ("dec_0_1", dec_0_1),
    ("decm_0_1", decm_0_1),
    ("dec_0_2", dec_0_2),
    ("decm_0_2", decm_0_2),
    ("renc_0_2", renc_0_2),
    ("dec_0_3", dec_0_3),
    ("decm_0_3", decm_0_3),
    ("renc_0_3", renc_0_3),
    ("dec_1_0", dec_1_0),
    ("decm_1_0", decm_1_0),
    ("dec_1_1", dec_1_1),
    ("decm_1_1", decm_1_1),
    ("dec_1_2", dec_1_2),
    ("decm_1_2", decm_1_2),
    ("dec_1_3", dec_1_3),
    ("decm_1_3", decm_1_3),
    ("dec_1_4", dec_1_4),
    ("decm_1_4", decm_1_4),
    ("dec_1_5", dec_1_5),
    ("decm_1_5", decm_1_5),
    ("dec_1_7", dec_1_7),
    ("decm_1_7", decm_1_7),
    ("dec_1_8", dec_1_8),
    ("decm_1_8", decm_1_8),
    ("dec_2_0", dec_2_0),
    ("decm_2_0", decm_2_0),
    ("dec_2_1", dec_2_1),
    ("decm_2_1", decm_2_1),
    ("dec_2_2", dec_2_2),
    ("decm_2_2", decm_2_2),
    ("renc_2_2", renc_2_2),
    ("dec_2_3", dec_2_3),
    ("decm_2_3", decm_2_3),
    ("renc_2_3", renc_2_3),
    ("dec_3_0", dec_3_0),
    ("decm_3_0", decm_3_0),
    ("dec_3_3", dec_3_3),
    ("decm_3_3", decm_3_3),
    ("dec_3_4", dec_3_4),
    ("decm_3_4", decm_3_4),
    ("renc_3_4", renc_3_4),
    ("dec_3_5", dec_3_5),
    ("decm_3_5", decm_3_5),
    ("renc_3_5", renc_3_5),
    ("dec_4_0", dec_4_0),
    ("decm_4_0", decm_4_0),
    ("dec_4_3", dec_4_3),
    ("decm_4_3", decm_4_3),
    ("dec_4_4", dec_4_4),
    ("decm_4_4", decm_4_4),
    ("renc_4_4", renc_4_4),
    ("dec_4_5", dec_4_5),
    ("decm_4_5", decm_4_5),
    ("renc_4_5", renc_4_5),
    ("dec_5_0", dec_5_0),
    ("decm_5_0", decm_5_0),
    ("dec_5_7", dec_5_7),
    ("decm_5_7", decm_5_7),
    ("dec_5_8", dec_5_8),
    ("decm_5_8", decm_5_8),
    ("renc_5_8", renc_5_8),
    ("dec_5_9", dec_5_9),
    ("decm_5_9", decm_5_9),
    ("renc_5_9", renc_5_9),
    ("dec_6_0", dec_6_0),
    ("decm_6_0", decm_6_0),
    ("dec_6_1", dec_6_1),
    ("decm_6_1", decm_6_1),
    ("dec_6_2", dec_6_2),
    ("decm_6_2", decm_6_2),
    ("renc_6_2", renc_6_2),
    ("dec_6_3", dec_6_3),
    ("decm_6_3", decm_6_3),
    ("renc_6_3", renc_6_3),
    ("dec_7_0", dec_7_0),
    ("decm_7_0", decm_7_0),
    ("dec_7_1", dec_7_1),
    ("decm_7_1", decm_7_1),
    ("renc_7_1", renc_7_1),
    ("dec_7_3", dec_7_3),
    ("decm_7_3", decm_7_3),
    ("renc_7_3", renc_7_3),
    ("dec_7_7", dec_7_7),
    ("decm_7_7", decm_7_7),
    ("renc_7_7", renc_7_7),
    ("dec_8_0", dec_8_0),
    ("decm_8_0", decm_8_0),
    ("dec_8_1", dec_8_1),
    ("decm_8_1", decm_8_1),
    ("renc_8_1", renc_8_1),
    ("dec_8_2", dec_8_2),
    ("decm_8_2", decm_8_2),
    ("renc_8_2", renc_8_2),
    ("dec_8_3", dec_8_3),
    ("decm_8_3", decm_8_3),
    ("renc_8_3", renc_8_3),
    ("dec_8_4", dec_8_4),
    ("decm_8_4", decm_8_4),
    ("renc_8_4", renc_8_4),
    ("dec_8_5", dec_8_5),
    ("decm_8_5", decm_8_5),
    ("renc_8_5", renc_8_5),
    ("dec_8_6", dec_8_6),
    ("decm_8_6", decm_8_6),
    ("renc_8_6", renc_8_6),
    ("dec_9_0", dec_9_0),
    ("decm_9_0", decm_9_0),
    ("dec_9_1", dec_9_1),
    ("decm_9_1", decm_9_1),
    ("dec_9_2", dec_9_2),
    ("decm_9_2", decm_9_2),
    ("renc_9_2", renc_9_2),
    ("dec_9_3", dec_9_3),
    ("decm_9_3", decm_9_3),
    ("renc_9_3", renc_9_3),
    ("dec_10_0", dec_10_0),
    ("decm_10_0", decm_10_0),
    ("dec_10_1", dec_10_1),
    ("decm_10_1", decm_10_1),
    ("dec_10_2", dec_10_2),
    ("decm_10_2", decm_10_2),
    ("renc_10_2", renc_10_2),
    ("dec_10_3", dec_10_3),
    ("decm_10_3", decm_10_3),
    ("renc_10_3", renc_10_3),
    ("dec_11_0", dec_11_0),
    ("decm_11_0", decm_11_0),
    ("dec_11_1", dec_11_1),
    ("decm_11_1", decm_11_1),
    ("renc_11_1", renc_11_1),
    ("dec_11_3", dec_11_3),
    ("decm_11_3", decm_11_3),
    ("renc_11_3", renc_11_3),
    ("dec_11_7", dec_11_7),
    ("decm_11_7", decm_11_7),
    ("renc_11_7", renc_11_7),
    ("dec_12_0", dec_12_0),
    ("decm_12_0", decm_12_0),
    ("dec_12_2", dec_12_2),
    ("decm_12_2", decm_12_2),
    ("dec_12_3", dec_12_3),
    ("decm_12_3", decm_12_3),
    ("renc_12_3", renc_12_3),
    ("dec_12_4", dec_12_4),
    ("decm_12_4", decm_12_4),
    ("renc_12_4", renc_12_4),
    ("dec_12_6", dec_12_6),
    ("decm_12_6", decm_12_6),
    ("renc_12_6", renc_12_6),
    ("dec_12_7", dec_12_7),
    ("decm_12_7", decm_12_7),
    ("renc_12_7", renc_12_7),
    ("dec_13_0", dec_13_0),
    ("decm_13_0", decm_13_0),
    ("dec_13_15", dec_13_15),
    ("decm_13_15", decm_13_15),
    ("dec_13_16", dec_13_16),
    ("decm_13_16", decm_13_16),
    ("renc_13_16", renc_13_16),
    ("dec_13_17", dec_13_17),
    ("decm_13_17", decm_13_17),
    ("renc_13_17", renc_13_17),
    ("dec_14_0", dec_14_0),
    ("decm_14_0", decm_14_0),
    ("dec_14_1", dec_14_1),
    ("decm_14_1", decm_14_1),
    ("dec_14_2", dec_14_2),
    ("decm_14_2", decm_14_2),
    ("renc_14_2", renc_14_2),
    ("dec_14_3", dec_14_3),
    ("decm_14_3", decm_14_3),
    ("renc_14_3", renc_14_3),
    ("dec_15_0", dec_15_0),
    ("decm_15_0", decm_15_0),
    ("dec_15_3", dec_15_3),
    ("decm_15_3", decm_15_3),
    ("dec_15_4", dec_15_4),
    ("decm_15_4", decm_15_4),
    ("renc_15_4", renc_15_4),
    ("dec_15_5", dec_15_5),
    ("decm_15_5", decm_15_5),
    ("renc_15_5", renc_15_5),
    ("dec_16_0", dec_16_0),
    ("decm_16_0", decm_16_0),
    ("dec_16_3", dec_16_3),
    ("decm_16_3", decm_16_3),
    ("dec_16_4", dec_16_4),
    ("decm_16_4", decm_16_4),
    ("renc_16_4", renc_16_4),
    ("dec_16_5", dec_16_5),
    ("decm_16_5", decm_16_5),
    ("renc_16_5", renc_16_5),
    ("dec_17_0", dec_17_0),
    ("decm_17_0", decm_17_0),
    ("dec_17_3", dec_17_3),
    ("decm_17_3", decm_17_3),
    ("dec_17_4", dec_17_4),
    ("decm_17_4", decm_17_4),
    ("renc_17_4", renc_17_4),
    ("dec_17_5", dec_17_5),
    ("decm_17_5", decm_17_5),
    ("renc_17_5", renc_17_5),
    ("dec_18_0", dec_18_0),
    ("decm_18_0", decm_18_0),
    ("dec_18_3", dec_18_3),
    ("decm_18_3", decm_18_3),
    ("dec_18_4", dec_18_4),
    ("decm_18_4", decm_18_4),
    ("renc_18_4", renc_18_4),
    ("dec_18_5", dec_18_5),
    ("decm_18_5", decm_18_5),
    ("renc_18_5", renc_18_5),
    ("dec_19_0", dec_19_0),
    ("decm_19_0", decm_19_0),
    ("dec_19_3", dec_19_3),
    ("decm_19_3", decm_19_3),
    ("dec_19_4", dec_19_4),
    ("decm_19_4", decm_19_4),
    ("renc_19_4", renc_19_4),
    ("dec_19_5", dec_19_5),
    ("decm_19_5", decm_19_5),
    ("renc_19_5", renc_19_5),
    ("dec_20_0", dec_20_0),
    ("decm_20_0", decm_20_0),
    ("dec_20_2", dec_20_2),
    ("decm_20_2", decm_20_2),
    ("dec_21_0", dec_21_0),
    ("decm_21_0", decm_21_0),
    ("dec_21_1", dec_21_1),
    ("decm_21_1", decm_21_1),
    ("renc_21_1", renc_21_1),
    ("dec_21_2", dec_21_2),
    ("decm_21_2", decm_21_2),
    ("renc_21_2", renc_21_2),
    ("dec_21_3", dec_21_3),
    ("decm_21_3", decm_21_3),
    ("renc_21_3", renc_21_3),
    ("dec_21_4", dec_21_4),
    ("decm_21_4", decm_21_4),
    ("renc_21_4", renc_21_4),
    ("dec_21_5", dec_21_5),
    ("decm_21_5", decm_21_5),
    ("renc_21_5", renc_21_5),
    ("dec_21_6", dec_21_6),
    ("decm_21_6", decm_21_6),
    ("renc_21_6", renc_21_6),
    ("dec_22_0", dec_22_0),
    ("decm_22_0", decm_22_0),
    ("dec_22_1", dec_22_1),
    ("decm_22_1", decm_22_1),
    ("renc_22_1", renc_22_1),
    ("dec_22_2", dec_22_2),
    ("decm_22_2", decm_22_2),
    ("renc_22_2", renc_22_2),
    ("dec_22_3", dec_22_3),
    ("decm_22_3", decm_22_3),
    ("renc_22_3", renc_22_3),
    ("dec_22_4", dec_22_4),
    ("decm_22_4", decm_22_4),
    ("renc_22_4", renc_22_4),
    ("dec_22_5", dec_22_5),
    ("decm_22_5", decm_22_5),
    ("renc_22_5", renc_22_5),
    ("dec_22_6", dec_22_6),
    ("decm_22_6", decm_22_6),
    ("renc_22_6", renc_22_6),
    ("dec_23_0", dec_23_0),
    ("decm_23_0", decm_23_0),
    ("dec_23_1", dec_23_1),
    ("decm_23_1", decm_23_1),
    ("renc_23_1", renc_23_1),
    ("dec_23_2", dec_23_2),
    ("decm_23_2", decm_23_2),
    ("renc_23_2", renc_23_2),
    ("dec_23_3", dec_23_3),
    ("decm_23_3", decm_23_3),
    ("renc_23_3", renc_23_3),
    ("dec_23_4", dec_23_4),
    ("decm_23_4", decm_23_4),
    ("renc_23_4", renc_23_4),
    ("dec_23_5", dec_23_5),
    ("decm_23_5", decm_23_5),
    ("renc_23_5", renc_23_5),
    ("dec_23_6", dec_23_6),
    ("decm_23_6", decm_23_6),
    ("renc_23_6", renc_23_6),
    ("dec_24_0", dec_24_0),
    ("decm_24_0", decm_24_0),
    ("dec_24_3", dec_24_3),
    ("decm_24_3", decm_24_3),
    ("dec_24_4", dec_24_4),
    ("decm_24_4", decm_24_4),
    ("renc_24_4", renc_24_4),
    ("dec_24_5", dec_24_5),
    ("decm_24_5", decm_24_5),
    ("renc_24_5", renc_24_5),
    ("dec_25_0", dec_25_0),
    ("decm_25_0", decm_25_0),
    ("dec_25_3", dec_25_3),
    ("decm_25_3", decm_25_3),
    ("dec_25_4", dec_25_4),
    ("decm_25_4", decm_25_4),
    ("renc_25_4", renc_25_4),
    ("dec_25_5", dec_25_5),
    ("decm_25_5", decm_25_5),
    ("renc_25_5", renc_25_5),
    ("dec_26_0", dec_26_0),
    ("decm_26_0", decm_26_0),
    ("dec_26_1", dec_26_1),
    ("decm_26_1", decm_26_1),
    ("renc_26_1", renc_26_1),
    ("dec_26_3", dec_26_3),
    ("decm_26_3", decm_26_3),
    ("renc_26_3", renc_26_3),
    ("dec_26_7", dec_26_7),
    ("decm_26_7", decm_26_7),
    ("renc_26_7", renc_26_7),
    ("dec_27_0", dec_27_0),
    ("decm_27_0", decm_27_0),
    ("dec_27_1", dec_27_1),
    ("decm_27_1", decm_27_1),
    ("renc_27_1", renc_27_1),
    ("dec_27_3", dec_27_3),
    ("decm_27_3", decm_27_3),
    ("renc_27_3", renc_27_3),
    ("dec_27_7", dec_27_7),
    ("decm_27_7", decm_27_7),
    ("renc_27_7", renc_27_7),
    ("dec_28_0", dec_28_0),
    ("decm_28_0", decm_28_0),
    ("dec_28_1", dec_28_1),
    ("decm_28_1", decm_28_1),
    ("renc_28_1", renc_28_1),
    ("dec_28_3", dec_28_3),
    ("decm_28_3", decm_28_3),
    ("renc_28_3", renc_28_3),
    ("dec_28_7", dec_28_7),
    ("decm_28_7", decm_28_7),
    ("renc_28_7", renc_28_7),
    ("dec_29_0", dec_29_0),
    ("decm_29_0", decm_29_0),
    ("dec_29_1", dec_29_1),
    ("decm_29_1", decm_29_1),
    ("dec_29_2", dec_29_2),
    ("decm_29_2", decm_29_2),
    ("renc_29_2", renc_29_2),
    ("dec_29_3", dec_29_3),
    ("decm_29_3", decm_29_3),
    ("renc_29_3", renc_29_3),
    ("dec_30_0", dec_30_0),
    ("decm_30_0", decm_30_0),
    ("dec_30_1", dec_30_1),
    ("decm_30_1", decm_30_1),
    ("renc_30_1", renc_30_1),
    ("dec_30_3", dec_30_3),
    ("decm_30_3", decm_30_3),
    ("renc_30_3", renc_30_3),
    ("dec_30_7", dec_30_7),
    ("decm_30_7", decm_30_7),
    ("renc_30_7", renc_30_7),
    ("dec_31_0", dec_31_0),
    ("decm_31_0", decm_31_0),
    ("dec_31_1", dec_31_1),
    ("decm_31_1", decm_31_1),
    ("renc_31_1", renc_31_1),
    ("dec_31_3", dec_31_3),
    ("decm_31_3", decm_31_3),
    ("renc_31_3", renc_31_3),
    ("dec_31_7", dec_31_7),
    ("decm_31_7", decm_31_7),
    ("renc_31_7", renc_31_7),
    ("dec_32_0", dec_32_0),
    ("decm_32_0", decm_32_0),
    ("dec_32_1", dec_32_1),
    ("decm_32_1", decm_32_1),
    ("dec_32_2", dec_32_2),
    ("decm_32_2", decm_32_2),
    ("renc_32_2", renc_32_2),
    ("dec_32_3", dec_32_3),
    ("decm_32_3", decm_32_3),
    ("renc_32_3", renc_32_3),
    ("dec_33_0", dec_33_0),
    ("decm_33_0", decm_33_0),
    ("dec_33_1", dec_33_1),
    ("decm_33_1", decm_33_1),
    ("renc_33_1", renc_33_1),
    ("dec_33_3", dec_33_3),
    ("decm_33_3", decm_33_3),
    ("renc_33_3", renc_33_3),
    ("dec_33_7", dec_33_7),
    ("decm_33_7", decm_33_7),
    ("renc_33_7", renc_33_7),
    ("dec_34_0", dec_34_0),
    ("decm_34_0", decm_34_0),
    ("dec_34_25", dec_34_25),
    ("decm_34_25", decm_34_25),
    ("dec_34_26", dec_34_26),
    ("decm_34_26", decm_34_26),
    ("renc_34_26", renc_34_26),
    ("dec_34_27", dec_34_27),
    ("decm_34_27", decm_34_27),
    ("renc_34_27", renc_34_27),
    ("dec_35_0", dec_35_0),
    ("decm_35_0", decm_35_0),
    ("dec_35_9", dec_35_9),
    ("decm_35_9", decm_35_9),
    ("dec_35_10", dec_35_10),
    ("decm_35_10", decm_35_10),
    ("renc_35_10", renc_35_10),
    ("dec_35_11", dec_35_11),
    ("decm_35_11", decm_35_11),
    ("renc_35_11", renc_35_11),
    ("dec_36_0", dec_36_0),
    ("decm_36_0", decm_36_0),
    ("dec_36_3", dec_36_3),
    ("decm_36_3", decm_36_3),
    ("dec_36_4", dec_36_4),
    ("decm_36_4", decm_36_4),
    ("renc_36_4", renc_36_4),
    ("dec_36_5", dec_36_5),
    ("decm_36_5", decm_36_5),
    ("renc_36_5", renc_36_5),
    ("dec_37_0", dec_37_0),
    ("decm_37_0", decm_37_0),
    ("dec_37_1", dec_37_1),
    ("decm_37_1", decm_37_1),
    ("renc_37_1", renc_37_1),
    ("dec_37_3", dec_37_3),
    ("decm_37_3", decm_37_3),
    ("renc_37_3", renc_37_3),
    ("dec_37_7", dec_37_7),
    ("decm_37_7", decm_37_7),
    ("renc_37_7", renc_37_7),
    ("dec_38_0", dec_38_0),
    ("decm_38_0", decm_38_0),
    ("dec_38_3", dec_38_3),
    ("decm_38_3", decm_38_3),
    ("dec_38_4", dec_38_4),
    ("decm_38_4", decm_38_4),
    ("renc_38_4", renc_38_4),
    ("dec_38_5", dec_38_5),
    ("decm_38_5", decm_38_5),
    ("renc_38_5", renc_38_5),
    ("dec_39_0", dec_39_0),
    ("decm_39_0", decm_39_0),
    ("renc_39_0", renc_39_0),
    ("dec_39_1", dec_39_1),
    ("decm_39_1", decm_39_1),
    ("renc_39_1", renc_39_1),
    ("dec_40_0", dec_40_0),
    ("decm_40_0", decm_40_0),
    ("dec_40_2", dec_40_2),
    ("decm_40_2", decm_40_2),
    ("dec_65535_0", dec_65535_0),
    ("decm_65535_0", decm_65535_0),
    ("dec_65535_2", dec_65535_2),
    ("decm_65535_2", decm_65535_2),
    ("enc_0_2", enc_0_2),
    ("enc_2_2", enc_2_2),
    ("enc_3_4", enc_3_4),
    ("enc_4_4", enc_4_4),
    ("enc_5_8", enc_5_8),
    ("enc_6_2", enc_6_2),
    ("enc_7_1", enc_7_1),
    ("enc_7_4", enc_7_4),
    ("enc_7_9", enc_7_9),
    ("enc_8_1", enc_8_1),
    ("enc_8_4", enc_8_4),
    ("enc_8_6", enc_8_6),
    ("enc_9_2", enc_9_2),
    ("enc_10_2", enc_10_2),
    ("enc_11_1", enc_11_1),
    ("enc_11_4", enc_11_4),
    ("enc_11_9", enc_11_9),
    ("enc_12_3", enc_12_3),
    ("enc_12_4", enc_12_4),
    ("enc_12_7", enc_12_7),
    ("enc_13_16", enc_13_16),
    ("enc_14_2", enc_14_2),
    ("enc_15_4", enc_15_4),
    ("enc_16_4", enc_16_4),
    ("enc_17_4", enc_17_4),
    ("enc_18_4", enc_18_4),
    ("enc_19_4", enc_19_4),
    ("enc_21_1", enc_21_1),
    ("enc_21_4", enc_21_4),
    ("enc_21_6", enc_21_6),
    ("enc_22_1", enc_22_1),
    ("enc_22_4", enc_22_4),
    ("enc_22_6", enc_22_6),
    ("enc_23_1", enc_23_1),
    ("enc_23_4", enc_23_4),
    ("enc_23_6", enc_23_6),
    ("enc_24_4", enc_24_4),
    ("enc_25_4", enc_25_4),
    ("enc_26_1", enc_26_1),
    ("enc_26_4", enc_26_4),
    ("enc_26_9", enc_26_9),
    ("enc_27_1", enc_27_1),
    ("enc_27_4", enc_27_4),
    ("enc_27_9", enc_27_9),
    ("enc_28_1", enc_28_1),
    ("enc_28_4", enc_28_4),
    ("enc_28_9", enc_28_9),
    ("enc_29_2", enc_29_2),
    ("enc_30_1", enc_30_1),
    ("enc_30_4", enc_30_4),
    ("enc_30_9", enc_30_9),
    ("enc_31_1", enc_31_1),
    ("enc_31_4", enc_31_4),
    ("enc_31_9", enc_31_9),
    ("enc_32_2", enc_32_2),
    ("enc_33_1", enc_33_1),
    ("enc_33_4", enc_33_4),
    ("enc_33_9", enc_33_9),
    ("enc_34_26", enc_34_26),
    ("enc_35_10", enc_35_10),
    ("enc_36_4", enc_36_4),
    ("enc_37_1", enc_37_1),
    ("enc_37_4", enc_37_4),
    ("enc_37_9", enc_37_9),
    ("enc_38_4", enc_38_4),
    ("enc_39_0", enc_39_0),
];
// GENERATED BY gen.py — END
