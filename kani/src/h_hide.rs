//! C11 / C12 / C13: `AVP::hide` and `AVP::reveal` with `md5::compute` replaced
//! by an uninterpreted function (Ackermann reduction, `stubs::hash16`), so that
//! equality with the RFC 2661 §4.3 reference construction can only be proved
//! if the crate feeds the hash exactly the specified octet strings in the
//! specified roles.  Natively (replay) real MD5 runs on both sides.

#![allow(static_mut_refs)]

use crate::kinds::{from_spec, mk_spec, sym_vec};
use crate::spec::avp as sa;
use crate::spec::bytes_eq;
use crate::spec::hide::{spec_encrypt, spec_hide, spec_reveal};
#[allow(unused_imports)]
use crate::stubs;
use crate::{check, nd, witness};
use rl2tp::avp::types as T;
use rl2tp::avp::AVP;
use rl2tp::common::DecodeError as DE;

fn hidden_len(p: usize, lp: usize) -> usize {
    16 * ((2 + p + lp + 15) / 16)
}

/// hide → (C12) equals the reference construction → (C11) reveal gives the
/// AVP back.  T = attribute type (kind), P = payload size parameter of
/// `mk_spec`, S = secret length, LP = length-padding length.
#[allow(non_snake_case)]
pub fn hide_body(t: u16, p: usize, S: usize, LP: usize) {
    stubs::touch();
    let sv = mk_spec(t, p);
    let a = from_spec(&sv);
    // slices of non-empty arrays (a zero-length array has a dangling base
    // pointer, which costs CBMC its constant propagation)
    let secret_buf: [u8; 16] = nd::any();
    let secret = &secret_buf[..S];
    let rv: [u8; 4] = nd::any();
    let lp_buf: [u8; 16] = nd::any();
    let lp = &lp_buf[..LP];
    let ap: [u8; 16] = nd::any();
    let ap2: [u8; 16] = nd::any();
    let mut payload = Vec::new();
    sa::spec_payload(&sv, &mut payload);
    let plen = payload.len();
    let total = hidden_len(plen, LP);
    let pad = total - (2 + plen + LP);

    let rvv: T::RandomVector = rv.into();
    let h = a.clone().hide(secret, &rvv, lp, &ap);
    let expect = spec_hide(t, &payload, secret, &rv, lp, &ap);
    match &h {
        AVP::Hidden(hd) => {
            check!(hd.attribute_type == t, "C12: the attribute type of a hidden AVP stays in clear");
            check!(hd.value.len() == total, "C12: the hidden value is 16 * ceil((2 + |value| + |length padding|) / 16) octets long");
            check!(bytes_eq(&hd.value, &expect), "C12: the hidden value equals the RFC 2661 s4.3 construction (length subfield, value, length padding, alignment padding; block 1 keyed by H(type, secret, RV), block i by H(secret, ciphertext block i-1))");
        }
        _ => check!(false, "C11,C12: hiding a non-hidden AVP yields a hidden AVP"),
    }
    // only the first `pad` octets of the alignment padding may matter
    let mut ap3 = ap;
    let mut i = pad;
    while i < 16 {
        ap3[i] = ap2[i];
        i += 1;
    }
    let h3 = a.clone().hide(secret, &rvv, lp, &ap3);
    if let AVP::Hidden(y) = &h3 {
        check!(bytes_eq(&y.value, &expect), "C12: the hidden value depends on nothing but type, value, secret, random vector, length padding and the needed alignment padding");
    }
    std::mem::forget(h3);

    // C11: reveal with the same secret and random vector
    let back = h.reveal(secret, &rvv);
    match &back {
        Ok(b) => check!(sa::same(b, &sv), "C11: revealing a hidden AVP with the same secret and random vector returns the original AVP"),
        Err(_) => check!(false, "C11: revealing a hidden AVP with the same secret and random vector succeeds"),
    }
    witness!(back.is_ok(), "revealed");
    std::mem::forget(back);
}

/// Identity cases of C11.
pub fn hide_identity_body() {
    stubs::touch();
    let t: u16 = nd::any();
    let v: [u8; 16] = nd::any();
    let secret: [u8; 3] = nd::any();
    let rv: T::RandomVector = nd::any::<[u8; 4]>().into();
    let lp: [u8; 2] = nd::any();
    let ap: [u8; 16] = nd::any();
    let h = AVP::Hidden(T::Hidden {
        attribute_type: t,
        value: v.to_vec(),
    });
    match h.hide(&secret, &rv, &lp, &ap) {
        AVP::Hidden(x) => check!(x.attribute_type == t && bytes_eq(&x.value, &v), "C11: hiding an already hidden AVP returns it unchanged"),
        _ => check!(false, "C11: hiding an already hidden AVP returns a hidden AVP"),
    }
    let f: u16 = nd::any();
    let plain = AVP::FirmwareRevision(f.into());
    match plain.reveal(&secret, &rv) {
        Ok(AVP::FirmwareRevision(x)) => check!(x.value == f, "C11: revealing a non-hidden AVP returns it unchanged"),
        _ => check!(false, "C11: revealing a non-hidden AVP returns it unchanged"),
    }
    witness!(true, "completed");
}

/// C13 (and the reveal half of C12): reveal on an arbitrary hidden value of N
/// octets, arbitrary attribute type, secret and random vector.  The per-type
/// decoding below is `abs_decode` (it logs the type and the sub-reader length
/// it is handed); natively the real decoders run.
#[allow(non_snake_case)]
pub fn reveal_body<const N: usize>(S: usize) {
    stubs::touch();
    let t: u16 = nd::any();
    // For a well-formed size the quantifier ranges over the *plaintext*: for
    // fixed keys the cipher is a bijection, so "every hidden value" is "every
    // plaintext", and the replay twin (real MD5) sees the same plaintext as
    // the solver did under the uninterpreted hash.
    let x: [u8; N] = nd::any();
    let secret_buf: [u8; 16] = nd::any();
    let secret = &secret_buf[..S];
    let rv: [u8; 4] = nd::any();
    let aligned = N > 0 && N % 16 == 0;
    let v: Vec<u8> = if aligned { spec_encrypt(t, &x, secret, &rv) } else { sym_copy(&x) };
    check!(v.len() == N, "C13: (harness) hidden value has the intended size");
    let h = AVP::Hidden(T::Hidden {
        attribute_type: t,
        value: sym_copy(&v),
    });
    let r = h.reveal(secret, &rv.into());
    let spec = spec_reveal(t, &v, secret, &rv);
    match &spec {
        Err(_) => check!(r.is_err(), "C13,C12: empty values, values that are not a multiple of 16 octets and decrypted lengths that do not fit inside the value are rejected"),
        Ok((plain, start, end)) => {
            check!(bytes_eq(plain, &x), "C12: (reference) decrypting an encrypted plaintext returns it");
            #[cfg(kani)]
            unsafe {
                check!(stubs::ABS_N == 1, "C12,C13: an acceptable hidden value is handed to the per-type decoder once");
                let c = stubs::ABS_LOG[0];
                check!(c.t == t, "C13: the revealed AVP is decoded as the announced attribute type");
                check!(c.len == end - start, "C12,C13: the decoder of the original value is confined to the decrypted original length");
                check!(stubs::abs_matches(0, c.kind, &r), "C13: revealing returns what the per-type decoder returns");
            }
            #[cfg(not(kani))]
            {
                check!(sa::result_matches(&r, &sa::spec_leaf(t, &plain[*start..*end])), "C12,C13: revealing returns the specified decoding of the decrypted original value");
            }
        }
    }
    witness!(r.is_ok(), "accepted");
    witness!(r.is_err(), "rejected");
    std::mem::forget(r);
}

fn sym_copy(v: &[u8]) -> Vec<u8> {
    let mut o = sym_vec(0);
    let mut i = 0;
    while i < v.len() {
        o.push(v[i]);
        i += 1;
    }
    o
}

#[allow(dead_code)]
fn unused(_: DE) {}

macro_rules! hide {
    ($name:ident, $t:expr, $p:expr, $s:expr, $lp:expr) => {
        pub fn $name() {
            hide_body($t, $p, $s, $lp)
        }
    };
}
macro_rules! reveal {
    ($name:ident, $n:expr, $s:expr) => {
        pub fn $name() {
            reveal_body::<$n>($s)
        }
    };
}

//@ props=C11 tier=quick unwind=42 stubs=md5
pub fn hide_identity() {
    hide_identity_body()
}

// GENERATED BY gen.py — BEGIN
//@ props=C11,C12 tier=quick unwind=42 stubs=md5 uwset=message/avp.rs@(1..n_chunks).rev()=2;message/avp.rs@in~1..n_chunks~{=2 witness=revealed cap=1800
hide!(hide_6_2_s3_lp0, 6, 2, 3, 0);
//@ props=C11,C12 tier=quick unwind=42 stubs=md5 uwset=message/avp.rs@(1..n_chunks).rev()=2;message/avp.rs@in~1..n_chunks~{=2 witness=revealed cap=1800
hide!(hide_7_5_s0_lp2, 7, 5, 0, 2);
//@ props=C11,C12 tier=quick unwind=42 stubs=md5 uwset=message/avp.rs@(1..n_chunks).rev()=2;message/avp.rs@in~1..n_chunks~{=2 witness=revealed cap=1800
hide!(hide_7_14_s3_lp0, 7, 14, 3, 0);
//@ props=C11,C12 tier=quick unwind=42 stubs=md5 uwset=message/avp.rs@(1..n_chunks).rev()=3;message/avp.rs@in~1..n_chunks~{=3 witness=revealed cap=1800
hide!(hide_7_9_s3_lp8, 7, 9, 3, 8);
//@ props=C11,C12 tier=quick unwind=42 stubs=md5,utf8 uwset=message/avp.rs@(1..n_chunks).rev()=2;message/avp.rs@in~1..n_chunks~{=2 witness=revealed cap=1800
hide!(hide_8_4_s16_lp3, 8, 4, 16, 3);
//@ props=C11,C12 tier=quick unwind=42 stubs=md5 uwset=message/avp.rs@(1..n_chunks).rev()=2;message/avp.rs@in~1..n_chunks~{=2 witness=revealed cap=1800
hide!(hide_0_2_s1_lp0, 0, 2, 1, 0);
//@ props=C11,C12 tier=thorough unwind=42 stubs=md5 uwset=message/avp.rs@(1..n_chunks).rev()=3;message/avp.rs@in~1..n_chunks~{=3 witness=revealed cap=1800
hide!(hide_34_26_s3_lp2, 34, 26, 3, 2);
//@ props=C11,C12 tier=thorough unwind=42 stubs=md5 uwset=message/avp.rs@(1..n_chunks).rev()=3;message/avp.rs@in~1..n_chunks~{=3 witness=revealed cap=1800
hide!(hide_13_16_s3_lp0, 13, 16, 3, 0);
//@ props=C11,C12 tier=quick unwind=52 stubs=md5 uwset=message/avp.rs@(1..n_chunks).rev()=4;message/avp.rs@in~1..n_chunks~{=4 witness=revealed cap=1800
hide!(hide_7_20_s3_lp12, 7, 20, 3, 12);
//@ props=C11,C12 tier=thorough unwind=42 stubs=md5 uwset=message/avp.rs@(1..n_chunks).rev()=2;message/avp.rs@in~1..n_chunks~{=2 witness=revealed cap=1800
hide!(hide_39_0_s3_lp0, 39, 0, 3, 0);
//@ props=C11,C12 tier=thorough unwind=42 stubs=md5 uwset=message/avp.rs@(1..n_chunks).rev()=2;message/avp.rs@in~1..n_chunks~{=2 witness=revealed cap=1800
hide!(hide_5_8_s3_lp6, 5, 8, 3, 6);
//@ props=C11,C12 tier=thorough unwind=52 stubs=md5 uwset=message/avp.rs@(1..n_chunks).rev()=4;message/avp.rs@in~1..n_chunks~{=4 witness=revealed cap=1800
hide!(hide_7_30_s1_lp16, 7, 30, 1, 16);
//@ props=C13,C12,C01 tier=quick unwind=42 stubs=md5,decode uwset=message/avp.rs@(1..n_chunks).rev()=1;message/avp.rs@in~1..n_chunks~{=1 witness=rejected cap=1800
reveal!(reveal_0_s0, 0, 0);
//@ props=C13,C12,C01 tier=quick unwind=42 stubs=md5,decode uwset=message/avp.rs@(1..n_chunks).rev()=1;message/avp.rs@in~1..n_chunks~{=1 witness=rejected cap=1800
reveal!(reveal_1_s3, 1, 3);
//@ props=C13,C12,C01 tier=quick unwind=42 stubs=md5,decode uwset=message/avp.rs@(1..n_chunks).rev()=1;message/avp.rs@in~1..n_chunks~{=1 witness=rejected cap=1800
reveal!(reveal_15_s0, 15, 0);
//@ props=C13,C12,C01 tier=quick unwind=42 stubs=md5,decode uwset=message/avp.rs@(1..n_chunks).rev()=2;message/avp.rs@in~1..n_chunks~{=2 witness=rejected,accepted cap=1800
reveal!(reveal_16_s3, 16, 3);
//@ props=C13,C12,C01 tier=quick unwind=42 stubs=md5,decode uwset=message/avp.rs@(1..n_chunks).rev()=2;message/avp.rs@in~1..n_chunks~{=2 witness=rejected cap=1800
reveal!(reveal_17_s0, 17, 0);
//@ props=C13,C12,C01 tier=quick unwind=42 stubs=md5,decode uwset=message/avp.rs@(1..n_chunks).rev()=3;message/avp.rs@in~1..n_chunks~{=3 witness=rejected,accepted cap=1800
reveal!(reveal_32_s3, 32, 3);
//@ props=C13,C12,C01 tier=thorough unwind=42 stubs=md5,decode uwset=message/avp.rs@(1..n_chunks).rev()=2;message/avp.rs@in~1..n_chunks~{=2 witness=rejected cap=1800
reveal!(reveal_31_s3, 31, 3);
//@ props=C13,C12,C01 tier=thorough unwind=42 stubs=md5,decode uwset=message/avp.rs@(1..n_chunks).rev()=3;message/avp.rs@in~1..n_chunks~{=3 witness=rejected cap=1800
reveal!(reveal_33_s3, 33, 3);
//@ props=C13,C12,C01 tier=quick unwind=51 stubs=md5,decode uwset=message/avp.rs@(1..n_chunks).rev()=4;message/avp.rs@in~1..n_chunks~{=4 witness=rejected,accepted cap=1800
reveal!(reveal_48_s3, 48, 3);
//@ props=C13,C12,C01 tier=thorough unwind=42 stubs=md5,decode uwset=message/avp.rs@(1..n_chunks).rev()=2;message/avp.rs@in~1..n_chunks~{=2 witness=rejected,accepted cap=1800
reveal!(reveal_16_s0, 16, 0);

pub const HARNESSES: &[(&str, fn())] = &[
    ("hide_identity", hide_identity),
    ("hide_6_2_s3_lp0", hide_6_2_s3_lp0),
    ("hide_7_5_s0_lp2", hide_7_5_s0_lp2),
    ("hide_7_14_s3_lp0", hide_7_14_s3_lp0),
    ("hide_7_9_s3_lp8", hide_7_9_s3_lp8),
    ("hide_8_4_s16_lp3", hide_8_4_s16_lp3),
    ("hide_0_2_s1_lp0", hide_0_2_s1_lp0),
    ("hide_34_26_s3_lp2", hide_34_26_s3_lp2),
    ("hide_13_16_s3_lp0", hide_13_16_s3_lp0),
    ("hide_7_20_s3_lp12", hide_7_20_s3_lp12),
    ("hide_39_0_s3_lp0", hide_39_0_s3_lp0),
    ("hide_5_8_s3_lp6", hide_5_8_s3_lp6),
    ("hide_7_30_s1_lp16", hide_7_30_s1_lp16),
    ("reveal_0_s0", reveal_0_s0),
    ("reveal_1_s3", reveal_1_s3),
    ("reveal_15_s0", reveal_15_s0),
    ("reveal_16_s3", reveal_16_s3),
    ("reveal_17_s0", reveal_17_s0),
    ("reveal_32_s3", reveal_32_s3),
    ("reveal_31_s3", reveal_31_s3),
    ("reveal_33_s3", reveal_33_s3),
    ("reveal_48_s3", reveal_48_s3),
    ("reveal_16_s0", reveal_16_s0),
];
// GENERATED BY gen.py — END
