//! Message-level encode / round-trip harnesses over concrete skeletons (every
//! length and kind a constant, every value symbolic), no stub: data messages
//! (C04), control messages with 0 or 1 AVP (C03, C10), AVP sequences (C08,
//! C09), length fields and oversize refusal with a length-only writer (C07),
//! append-only behaviour (C09), specified octets (C06).

use crate::h_msg::{real_opts, Res};
use crate::kinds::{from_spec, mk_spec, payload_len};
use crate::model::CountWriter;
use crate::spec::avp as sa;
use crate::spec::msg as sm;
use crate::spec::{be16, bytes_eq};
use crate::{check, nd, require, witness};
use rl2tp::avp::types as T;
use rl2tp::avp::AVP;
use rl2tp::common::{Reader, SliceReader, VecWriter};
use rl2tp::{ControlMessage, DataMessage, Message};

const STRICT: sm::Opts = sm::Opts {
    reserved: true,
    version: true,
    unused: true,
};
pub const PREFIX: usize = 3;

/// A check whose attribution differs between the solver's query and the native
/// twin.  Under Kani a round-trip property is decided in two halves (encoder
/// output = specified octets; specified octets decode to the value), so both
/// halves carry the round-trip property's id.  The native twin runs the round
/// trip on the real encoder's real output instead, and there each half only
/// carries the id of the property it states on its own — so a VIOLATION of a
/// round-trip property is reported only when the real round trip fails.
macro_rules! check_kn {
    ($c:expr, $k:literal, $n:literal) => {{
        #[cfg(kani)]
        {
            check!($c, $k);
        }
        #[cfg(not(kani))]
        {
            check!($c, $n);
        }
    }};
}

/// Data message: encode (after a symbolic prefix) vs specified octets, then
/// decode.  `p` payload octets, optional Ns/Nr, optional Length (= true total),
/// optional offset size `off` (≤ p-1; the encoder writes no padding, so the
/// first `off` payload octets are what the decoder skips).
pub fn data_rt_body(p: usize, with_nsnr: bool, with_len: bool, off: Option<usize>) {
    let payload_buf: [u8; 8] = nd::any();
    let payload = &payload_buf[..p];
    let prefix: [u8; PREFIX] = nd::any();
    let suffix: [u8; 2] = nd::any();
    // The priority value is a constant of the shape (both values occur across
    // the shapes): a symbolic P bit makes the whole flag word non-constant for
    // CBMC, which then also walks the (infeasible) control-message decoder.
    let prio: bool = (p + with_nsnr as usize + with_len as usize + off.unwrap_or(2)) % 2 == 1;
    let (tid, sid, ns, nr): (u16, u16, u16, u16) = (nd::any(), nd::any(), nd::any(), nd::any());
    let total = 2 + if with_len { 2 } else { 0 } + 4 + if with_nsnr { 4 } else { 0 } + if off.is_some() { 2 } else { 0 } + p;
    let m: Message<&[u8]> = Message::Data(DataMessage {
        is_prioritized: prio,
        length: if with_len { Some(total as u16) } else { None },
        tunnel_id: tid,
        session_id: sid,
        ns_nr: if with_nsnr { Some((ns, nr)) } else { None },
        offset: off.map(|o| o as u16),
        data: payload,
    });
    let mut w = VecWriter::new();
    w.data.extend_from_slice(&prefix);
    m.write(&mut w);

    // specified octets
    let mut e: Vec<u8> = Vec::new();
    e.extend_from_slice(&sm::spec_flag_word(false, with_len, with_nsnr, off.is_some(), prio).to_be_bytes());
    if with_len {
        e.extend_from_slice(&(total as u16).to_be_bytes());
    }
    e.extend_from_slice(&tid.to_be_bytes());
    e.extend_from_slice(&sid.to_be_bytes());
    if with_nsnr {
        e.extend_from_slice(&ns.to_be_bytes());
        e.extend_from_slice(&nr.to_be_bytes());
    }
    if let Some(o) = off {
        e.extend_from_slice(&(o as u16).to_be_bytes());
    }
    e.extend_from_slice(payload);

    // native twin: the round trip on what the real encoder really emitted
    #[cfg(not(kani))]
    {
        let skip = off.unwrap_or(0);
        let mut w0 = VecWriter::new();
        m.write(&mut w0);
        let r0: Res = Message::try_read_validate(&mut SliceReader::from(&w0.data[..]), real_opts(STRICT));
        let same = match &r0 {
            Ok(Message::Data(d)) => {
                d.tunnel_id == tid
                    && d.session_id == sid
                    && d.ns_nr == if with_nsnr { Some((ns, nr)) } else { None }
                    && d.is_prioritized == prio
                    && d.length == if with_len { Some(total as u16) } else { None }
                    && d.offset.is_none()
                    && bytes_eq(d.data, &payload[skip..])
            }
            _ => false,
        };
        check!(same, "C04: (native twin, real encoder output) encode then decode returns the same ids, Ns/Nr, priority, length and payload");
        if off.is_none() {
            check!(same, "C10: (native twin, real encoder output) the encoded data message decodes to the same value");
            if let Ok(m2) = &r0 {
                let mut w2 = VecWriter::new();
                m2.write(&mut w2);
                check!(w2.data == w0.data, "C10: (native twin) encoding the decoded data message reproduces the same octets");
            }
        }
    }
    let len_ok = w.data.len() == PREFIX + total;
    check_kn!(len_ok, "C04,C06,C09,C10: a data message encodes to flag word, optional fields and payload, appended after what the writer held", "C06,C09: a data message encodes to flag word, optional fields and payload, appended after what the writer held");
    if !len_ok {
        return;
    }
    check!(w.data[0] == prefix[0] && w.data[1] == prefix[1] && w.data[2] == prefix[2], "C09: octets already in the writer are untouched");
    check_kn!(bytes_eq(&w.data[PREFIX..], &e), "C04,C06,C09,C10: data message octets equal the specification encoder's (flag word, big-endian fields in RFC 2661 order, payload; a Length field is written as given), independent of position", "C06,C09: data message octets equal the specification encoder's (flag word, big-endian fields in RFC 2661 order, payload; a Length field is written as given), independent of position");

    // decode what was encoded, followed by two unrelated octets when a length field delimits the message
    let mut buf = [0u8; 32];
    let mut i = 0;
    while i < total {
        buf[i] = e[i];
        i += 1;
    }
    let n = if with_len {
        buf[total] = suffix[0];
        buf[total + 1] = suffix[1];
        total + 2
    } else {
        total
    };
    let mut r = SliceReader::from(&buf[..n]);
    let res: Res = Message::try_read_validate(&mut r, real_opts(STRICT));
    let skip = off.unwrap_or(0);
    match &res {
        Ok(Message::Data(d)) => {
            check_kn!(d.tunnel_id == tid && d.session_id == sid, "C04,C10: ids survive encode then decode", "C05: the specified octets of a data message decode to the specified ids");
            check_kn!(d.ns_nr == if with_nsnr { Some((ns, nr)) } else { None }, "C04,C10: Ns/Nr survive encode then decode", "C05: the specified octets of a data message decode to the specified Ns/Nr");
            check_kn!(d.is_prioritized == prio, "C04,C10: priority survives encode then decode", "C05: the specified octets of a data message decode to the specified priority");
            check_kn!(d.length == if with_len { Some(total as u16) } else { None }, "C04,C10: the length field survives encode then decode", "C05: the specified octets of a data message decode to the specified length");
            check!(d.offset.is_none(), "C04: a decoded data message reports no offset");
            check_kn!(bytes_eq(d.data, &payload[skip..]), "C04,C10: the payload survives encode then decode (minus exactly the skipped offset octets)", "C05: the specified octets of a data message decode to the specified payload; exactly the announced offset octets are skipped");
        }
        _ => check_kn!(false, "C04,C10: an encoded data message with a non-empty payload decodes", "C05: the specified octets of a data message with a non-empty payload decode"),
    }
    if with_len {
        check!(r.len() == 2, "C08: decoding consumes exactly the declared length; the next message's octets stay in the reader");
    }
    // C10 for data messages without an offset field.  The values built above
    // (Length absent or equal to the true total) are exactly the values the
    // decoder can return for such a message (C05: `msg_dec_*` ties every
    // accepted octet string to the specified value, whose Length is header +
    // payload).  m -> e -> m' is checked field for field above; here m' is
    // encoded again and must reproduce e.
    if off.is_none() {
        if let Ok(m2) = &res {
            let mut w2 = VecWriter::new();
            m2.write(&mut w2);
            check_kn!(w2.data.len() == total && bytes_eq(&w2.data, &e), "C10: encoding the decoded data message reproduces the octets it was decoded from (one round is a fixed point)", "C06: encoding the value decoded from the specified octets reproduces them");
            witness!(w2.data.len() == total, "reencoded");
        }
    }
    witness!(res.is_ok(), "decoded");
    std::mem::forget(res);
}

/// Control message with k = 0 or 1 AVP (a Message Type, all 14 values):
/// encode after a prefix vs specified octets, Length exact.
pub fn ctrl_enc_body(with_mt: bool) {
    let prefix: [u8; PREFIX] = nd::any();
    let (len_in, tid, sid, ns, nr): (u16, u16, u16, u16, u16) = (nd::any(), nd::any(), nd::any(), nd::any(), nd::any());
    let sv = mk_spec(0, 2);
    let mut avps = Vec::new();
    if with_mt {
        avps.push(from_spec(&sv));
    }
    let m: Message<&[u8]> = Message::Control(ControlMessage {
        length: len_in,
        tunnel_id: tid,
        session_id: sid,
        ns,
        nr,
        avps,
    });
    let total = 12 + if with_mt { 8 } else { 0 };
    let mut w = VecWriter::new();
    w.data.extend_from_slice(&prefix);
    m.write(&mut w);

    let mut e: Vec<u8> = Vec::new();
    e.extend_from_slice(&sm::spec_flag_word(true, true, true, false, false).to_be_bytes());
    e.extend_from_slice(&(total as u16).to_be_bytes());
    e.extend_from_slice(&tid.to_be_bytes());
    e.extend_from_slice(&sid.to_be_bytes());
    e.extend_from_slice(&ns.to_be_bytes());
    e.extend_from_slice(&nr.to_be_bytes());
    if with_mt {
        sa::spec_record(&sv, &mut e);
    }
    require!(w.data.len() == PREFIX + total, "C06,C07,C09: a control message encodes to its 12-octet header plus its AVPs, appended after what the writer held");
    check!(w.data[0] == prefix[0] && w.data[1] == prefix[1] && w.data[2] == prefix[2], "C09: octets already in the writer are untouched");
    check!(be16(&w.data, PREFIX + 2) as usize == total, "C07: the control-message Length field equals the number of octets emitted (the value's own length member is ignored)");
    let mut same = true;
    let mut j = 0;
    while j < total {
        if PREFIX + j < w.data.len() && w.data[PREFIX + j] != e[j] {
            same = false;
        }
        j += 1;
    }
    check!(same, "C06,C09,C03: control message octets equal the specification encoder's (flag word T,L,S + version 2, Length, Tunnel ID, Session ID, Ns, Nr, AVPs), independent of position");
    witness!(true, "completed");
    std::mem::forget(m);
}

/// The specified octets of such a message (constant skeleton, symbolic values)
/// followed by two unrelated octets: decode under the strictest options
/// (C03: value back, Length = octets), consumption (C08), and optionally
/// re-encode (C10).
pub fn ctrl_dec_body(with_mt: bool, reencode: bool) {
    let (tid, sid, ns, nr): (u16, u16, u16, u16) = (nd::any(), nd::any(), nd::any(), nd::any());
    let sv = mk_spec(0, 2);
    let total = 12 + if with_mt { 8 } else { 0 };
    let mut buf = [0u8; 24];
    buf[0] = 0x13;
    buf[1] = 0x20;
    buf[3] = total as u8;
    buf[4] = (tid >> 8) as u8;
    buf[5] = tid as u8;
    buf[6] = (sid >> 8) as u8;
    buf[7] = sid as u8;
    buf[8] = (ns >> 8) as u8;
    buf[9] = ns as u8;
    buf[10] = (nr >> 8) as u8;
    buf[11] = nr as u8;
    if with_mt {
        buf[12] = 0x01;
        buf[13] = 8;
        if let sa::SV::MessageType(c) = sv.v {
            buf[18] = (c >> 8) as u8;
            buf[19] = c as u8;
        }
    }
    let suffix: [u8; 2] = nd::any();
    buf[total] = suffix[0];
    buf[total + 1] = suffix[1];
    let mut r = SliceReader::from(&buf[..total + 2]);
    let res: Res = Message::try_read_validate(&mut r, real_opts(STRICT));
    match &res {
        Ok(Message::Control(c)) => {
            check!(c.tunnel_id == tid && c.session_id == sid && c.ns == ns && c.nr == nr, "C03: ids and sequence numbers survive encode then decode");
            check!(c.length as usize == total, "C03: the decoded length field equals the number of octets emitted");
            check!(c.avps.len() == if with_mt { 1 } else { 0 }, "C03: the AVP list survives encode then decode (count)");
            if with_mt && c.avps.len() == 1 {
                check!(sa::same(&c.avps[0], &sv), "C03: the AVP list survives encode then decode (value)");
            }
        }
        _ => check!(false, "C03: an encoded control message decodes under the strictest options"),
    }
    check!(r.len() == 2, "C08: decoding a control message consumes exactly Length octets; the next message's octets stay in the reader");
    if reencode {
        if let Ok(m2) = &res {
            let mut w2 = VecWriter::new();
            m2.write(&mut w2);
            check!(w2.data.len() == total, "C10: re-encoding a decoded control message gives a message of the same size");
            let mut same = true;
            let mut j = 0;
            while j < total {
                if j < w2.data.len() && w2.data[j] != buf[j] {
                    same = false;
                }
                j += 1;
            }
            check!(same, "C10: re-encoding a decoded control message reproduces the same octets");
        }
    }
    witness!(res.is_ok(), "decoded");
    std::mem::forget(res);
}

/// Control message whose body ends with `k` (1–5) octets too few to hold an
/// AVP header, followed by six octets of the next message.  All of them
/// symbolic.  The leftover octets hold no AVP (a record needs six octets), so
/// the message is the ZLB / Message-Type-only message; the next message's
/// octets must not be looked at — however they read as an AVP header when
/// glued to the leftover octets — and must stay in the reader.
pub fn ctrl_tail_body(with_mt: bool, k: usize) {
    let (tid, sid, ns, nr): (u16, u16, u16, u16) = (nd::any(), nd::any(), nd::any(), nd::any());
    let sv = mk_spec(0, 2);
    let body = if with_mt { 8 } else { 0 };
    let total = 12 + body + k;
    let mut buf = [0u8; 32];
    buf[0] = 0x13;
    buf[1] = 0x20;
    buf[3] = total as u8;
    buf[4] = (tid >> 8) as u8;
    buf[5] = tid as u8;
    buf[6] = (sid >> 8) as u8;
    buf[7] = sid as u8;
    buf[8] = (ns >> 8) as u8;
    buf[9] = ns as u8;
    buf[10] = (nr >> 8) as u8;
    buf[11] = nr as u8;
    if with_mt {
        buf[12] = 0x01;
        buf[13] = 8;
        if let sa::SV::MessageType(c) = sv.v {
            buf[18] = (c >> 8) as u8;
            buf[19] = c as u8;
        }
    }
    let tail: [u8; 5] = nd::any();
    let next: [u8; 6] = nd::any();
    let mut i = 0;
    while i < k {
        buf[12 + body + i] = tail[i];
        i += 1;
    }
    i = 0;
    while i < 6 {
        buf[total + i] = next[i];
        i += 1;
    }
    let mut r = SliceReader::from(&buf[..total + 6]);
    let res: Res = Message::try_read_validate(&mut r, real_opts(STRICT));
    match &res {
        Ok(Message::Control(c)) => {
            check!(c.tunnel_id == tid && c.session_id == sid && c.ns == ns && c.nr == nr && c.length as usize == total, "C05,C08: header fields of a control message do not depend on the octets after its declared end");
            check!(c.avps.len() == if with_mt { 1 } else { 0 }, "C05,C08,C15: fewer than six octets left in the body hold no AVP; octets after the declared end are never parsed as part of one");
            if with_mt && c.avps.len() == 1 {
                check!(sa::same(&c.avps[0], &sv), "C05,C08: the AVP inside the declared length decodes to its specified value whatever follows");
            }
        }
        _ => check!(false, "C05,C08,C15: a control message whose body ends with 1-5 spare octets is accepted whatever follows its declared end"),
    }
    check!(r.len() == 6, "C08: decoding a control message consumes exactly Length octets; the next message's octets stay in the reader");
    witness!(res.is_ok(), "decoded");
    std::mem::forget(res);
}

/// Two or three AVPs of given kinds written back to back into one writer:
/// the output is the concatenation of the specified records (C09), and the
/// record walker returns them one per record, in order (C08, C03).
pub fn avp_seq_body(kinds: &[(u16, usize)]) {
    let mut w = VecWriter::new();
    let mut e: Vec<u8> = Vec::new();
    let mut svs: [Option<sa::SpecAvp<'static>>; 3] = [None, None, None];
    let mut total = 0;
    let mut i = 0;
    while i < kinds.len() {
        let (t, n) = kinds[i];
        let sv = mk_spec(t, n);
        let a = from_spec(&sv);
        a.write(&mut w);
        sa::spec_record(&sv, &mut e);
        total += 6 + payload_len(t, n);
        svs[i] = Some(sv);
        i += 1;
    }
    check!(w.data.len() == total, "C07,C09: values written in sequence occupy the sum of their sizes");
    check!(bytes_eq(&w.data, &e), "C09: encoding several values in sequence yields the concatenation of their individual encodings");
    // decode the (constant-skeleton) concatenation
    let res = AVP::try_read_greedy(&mut SliceReader::from(&e[..]));
    check!(res.len() == kinds.len(), "C08: decoding a concatenation of well-delimited AVPs yields one result per AVP");
    let mut k = 0;
    while k < kinds.len() {
        if k < res.len() {
            match (&res[k], &svs[k]) {
                (Ok(b), Some(sv)) => check!(sa::same(b, sv), "C08,C03: each AVP of a concatenation decodes to what it decodes to alone, in order"),
                _ => check!(false, "C08,C03: each AVP of a concatenation decodes"),
            }
        }
        k += 1;
    }
    witness!(true, "completed");
    std::mem::forget(res);
}

/// AVP of `total` octets (a byte-string kind with total-6 payload octets)
/// written through the length-only writer at a symbolic start offset.
/// total ≤ 1023: the back-patched flags/length octets describe exactly the
/// extent and sit at the value's own start.  total > 1023: refused (panic).
pub fn avp_len_body(total: usize) {
    let start: usize = nd::any();
    nd::assume(start < (1usize << 32));
    let a = AVP::HostName(vec![0u8; total - 6].into());
    check!(6 + a.get_length() == total, "C07: 6 + get_length() equals the octets the AVP occupies");
    let mut w = CountWriter::new(start);
    a.write(&mut w);
    // — only reached if the encoder did not refuse —
    witness!(total > 1023, "C07: an AVP over 1023 octets is refused, not truncated");
    check!(w.written == total, "C07: the encoder emits header plus payload, nothing else");
    require!(w.n_patches == 1, "C09: exactly one positional overwrite per AVP");
    let (off, len, two) = w.patches[0];
    check!(off == start && len == 2, "C09: the positional overwrite lies inside the value being encoded (its own first two octets), for every starting position");
    let l10 = (((two[0] >> 6) as usize) << 8) | two[1] as usize;
    check!(l10 == total, "C07: the AVP's 10-bit length equals the octets emitted for it");
    check!(two[0] & 0x3f == 0x01, "C06: mandatory bit set, hidden bit clear, reserved bits zero");
    witness!(true, "completed");
}

/// `hide` of a value whose hidden original length exceeds 1023 is refused.
pub fn hide_oversize_body(payload: usize) {
    let a = AVP::HostName(vec![0u8; payload].into());
    let rv: T::RandomVector = [0u8; 4].into();
    let h = a.hide(&[1, 2, 3], &rv, &[], &[0u8; 16]);
    witness!(payload + 6 > 1023, "C07: hiding a value whose original length does not fit 10 bits is refused");
    if let AVP::Hidden(x) = &h {
        check!(x.value.len() % 16 == 0 && x.value.len() >= payload + 2, "C12: hidden value is a whole number of blocks covering length subfield and value");
    }
    witness!(true, "completed");
    std::mem::forget(h);
}

/// Control message written through the length-only writer at a symbolic start:
/// the Length back-patch equals the extent and lies at start+2.
pub fn ctrl_len_body(with_mt: bool) {
    let start: usize = nd::any();
    nd::assume(start < (1usize << 32));
    let mut avps = Vec::new();
    if with_mt {
        avps.push(AVP::MessageType(T::MessageType::Hello));
    }
    let m: Message<&[u8]> = Message::Control(ControlMessage {
        length: nd::any(),
        tunnel_id: nd::any(),
        session_id: nd::any(),
        ns: nd::any(),
        nr: nd::any(),
        avps,
    });
    let total = 12 + if with_mt { 8 } else { 0 };
    let mut w = CountWriter::new(start);
    m.write(&mut w);
    check!(w.written == total, "C07: the encoder emits the header plus the AVPs, nothing else");
    let np = if with_mt { 2 } else { 1 };
    require!(w.n_patches == np, "C09: one positional overwrite per length field");
    let (off, len, two) = w.patches[np - 1];
    check!(off == start + 2 && len == 2, "C09: the Length overwrite lies inside the message being encoded (its own octets 2..4), for every starting position");
    check!(((two[0] as usize) << 8 | two[1] as usize) == total, "C07: the control-message Length field equals the number of octets emitted");
    if with_mt {
        let (aoff, alen, atwo) = w.patches[0];
        check!(aoff == start + 12 && alen == 2, "C09: the AVP length overwrite lies inside that AVP, for every starting position");
        check!(atwo[1] == 8 && atwo[0] >> 6 == 0, "C07: the AVPs tile the message body exactly");
    }
    witness!(true, "completed");
}

//@ props=C03,C06,C07,C09 tier=quick unwind=24 witness=completed
pub fn ctrl_enc_k0() {
    ctrl_enc_body(false)
}
//@ props=C03,C06,C07,C09,C10 tier=quick unwind=32 witness=completed cap=2400
pub fn ctrl_enc_mt() {
    ctrl_enc_body(true)
}
//@ props=C03,C08,C10,C15 tier=quick unwind=24 witness=decoded
pub fn ctrl_dec_k0() {
    ctrl_dec_body(false, true)
}
//@ props=C03,C08,C10,C15 tier=quick unwind=32 witness=decoded cap=1500
pub fn ctrl_dec_mt() {
    ctrl_dec_body(true, false)
}
//@ props=C05,C08,C15 tier=quick unwind=24 witness=decoded
pub fn ctrl_tail_k0_1() {
    ctrl_tail_body(false, 1)
}
//@ props=C05,C08,C15 tier=quick unwind=24 witness=decoded
pub fn ctrl_tail_k0_5() {
    ctrl_tail_body(false, 5)
}
//@ props=C05,C08,C15 tier=thorough unwind=24 witness=decoded
pub fn ctrl_tail_k0_3() {
    ctrl_tail_body(false, 3)
}
//@ props=C05,C08,C15 tier=quick unwind=32 witness=decoded cap=1500
pub fn ctrl_tail_mt_2() {
    ctrl_tail_body(true, 2)
}
//@ props=C07,C09 tier=quick unwind=8 witness=completed
pub fn ctrl_len_k0() {
    ctrl_len_body(false)
}
//@ props=C07,C09 tier=quick unwind=8 witness=completed cap=1500
pub fn ctrl_len_mt() {
    ctrl_len_body(true)
}
//@ props=C07,C09 tier=quick unwind=8 witness=completed
pub fn avp_len_1022() {
    avp_len_body(1022)
}
//@ props=C07,C09 tier=quick unwind=8 witness=completed
pub fn avp_len_1023() {
    avp_len_body(1023)
}
//@ props=C07 tier=quick unwind=8 expect=panic forbid=refused
pub fn avp_len_1024() {
    avp_len_body(1024)
}
//@ props=C07 tier=quick unwind=8 expect=panic forbid=refused
pub fn avp_len_1025() {
    avp_len_body(1025)
}
//@ props=C07 tier=thorough unwind=8 expect=panic forbid=refused
pub fn avp_len_1280() {
    avp_len_body(1280)
}
//@ props=C07 tier=quick unwind=20 expect=panic forbid=refused cap=1500
pub fn hide_oversize_1018() {
    hide_oversize_body(1018)
}
//@ props=C03,C08,C09,C07 tier=quick unwind=40 witness=completed cap=1500
pub fn avp_seq_0_7() {
    avp_seq_body(&[(0, 2), (7, 3)])
}
//@ props=C03,C08,C09,C07 tier=quick unwind=40 witness=completed cap=1500
pub fn avp_seq_6_39_9() {
    avp_seq_body(&[(6, 2), (39, 0), (9, 2)])
}
//@ props=C03,C08,C09,C07 tier=thorough unwind=60 witness=completed cap=3000
pub fn avp_seq_8_34() {
    avp_seq_body(&[(8, 3), (34, 26)])
}
//@ props=C03,C08,C09,C07 tier=thorough unwind=60 witness=completed cap=3000
pub fn avp_seq_0_3_11() {
    avp_seq_body(&[(0, 2), (3, 4), (11, 5)])
}

macro_rules! data_rt {
    ($name:ident, $p:expr, $s:expr, $l:expr, $o:expr) => {
        pub fn $name() {
            data_rt_body($p, $s, $l, $o)
        }
    };
}

// GENERATED BY gen.py — BEGIN
//@ props=C04,C06,C08,C09,C10 tier=quick unwind=36 witness=decoded,reencoded
data_rt!(data_rt_p1_s0_l0_on, 1, false, false, None);
//@ props=C04,C06,C08,C09 tier=quick unwind=36 witness=decoded
data_rt!(data_rt_p1_s0_l0_o0, 1, false, false, Some(0));
//@ props=C04,C06,C08,C09,C10 tier=thorough unwind=36 witness=decoded,reencoded
data_rt!(data_rt_p1_s0_l1_on, 1, false, true, None);
//@ props=C04,C06,C08,C09 tier=thorough unwind=36 witness=decoded
data_rt!(data_rt_p1_s0_l1_o0, 1, false, true, Some(0));
//@ props=C04,C06,C08,C09,C10 tier=thorough unwind=36 witness=decoded,reencoded
data_rt!(data_rt_p1_s1_l0_on, 1, true, false, None);
//@ props=C04,C06,C08,C09 tier=thorough unwind=36 witness=decoded
data_rt!(data_rt_p1_s1_l0_o0, 1, true, false, Some(0));
//@ props=C04,C06,C08,C09,C10 tier=quick unwind=36 witness=decoded,reencoded
data_rt!(data_rt_p1_s1_l1_on, 1, true, true, None);
//@ props=C04,C06,C08,C09 tier=quick unwind=36 witness=decoded
data_rt!(data_rt_p1_s1_l1_o0, 1, true, true, Some(0));
//@ props=C04,C06,C08,C09,C10 tier=thorough unwind=36 witness=decoded,reencoded
data_rt!(data_rt_p2_s0_l0_on, 2, false, false, None);
//@ props=C04,C06,C08,C09 tier=thorough unwind=36 witness=decoded
data_rt!(data_rt_p2_s0_l0_o0, 2, false, false, Some(0));
//@ props=C04,C06,C08,C09 tier=thorough unwind=36 witness=decoded
data_rt!(data_rt_p2_s0_l0_o1, 2, false, false, Some(1));
//@ props=C04,C06,C08,C09,C10 tier=quick unwind=36 witness=decoded,reencoded
data_rt!(data_rt_p2_s0_l1_on, 2, false, true, None);
//@ props=C04,C06,C08,C09 tier=thorough unwind=36 witness=decoded
data_rt!(data_rt_p2_s0_l1_o0, 2, false, true, Some(0));
//@ props=C04,C06,C08,C09 tier=quick unwind=36 witness=decoded
data_rt!(data_rt_p2_s0_l1_o1, 2, false, true, Some(1));
//@ props=C04,C06,C08,C09,C10 tier=quick unwind=36 witness=decoded,reencoded
data_rt!(data_rt_p2_s1_l0_on, 2, true, false, None);
//@ props=C04,C06,C08,C09 tier=thorough unwind=36 witness=decoded
data_rt!(data_rt_p2_s1_l0_o0, 2, true, false, Some(0));
//@ props=C04,C06,C08,C09 tier=thorough unwind=36 witness=decoded
data_rt!(data_rt_p2_s1_l0_o1, 2, true, false, Some(1));
//@ props=C04,C06,C08,C09,C10 tier=thorough unwind=36 witness=decoded,reencoded
data_rt!(data_rt_p2_s1_l1_on, 2, true, true, None);
//@ props=C04,C06,C08,C09 tier=thorough unwind=36 witness=decoded
data_rt!(data_rt_p2_s1_l1_o0, 2, true, true, Some(0));
//@ props=C04,C06,C08,C09 tier=thorough unwind=36 witness=decoded
data_rt!(data_rt_p2_s1_l1_o1, 2, true, true, Some(1));
//@ props=C04,C06,C08,C09,C10 tier=quick unwind=36 witness=decoded,reencoded
data_rt!(data_rt_p5_s0_l0_on, 5, false, false, None);
//@ props=C04,C06,C08,C09 tier=quick unwind=36 witness=decoded
data_rt!(data_rt_p5_s0_l0_o0, 5, false, false, Some(0));
//@ props=C04,C06,C08,C09 tier=quick unwind=36 witness=decoded
data_rt!(data_rt_p5_s0_l0_o1, 5, false, false, Some(1));
//@ props=C04,C06,C08,C09 tier=quick unwind=36 witness=decoded
data_rt!(data_rt_p5_s0_l0_o4, 5, false, false, Some(4));
//@ props=C04,C06,C08,C09,C10 tier=thorough unwind=36 witness=decoded,reencoded
data_rt!(data_rt_p5_s0_l1_on, 5, false, true, None);
//@ props=C04,C06,C08,C09 tier=thorough unwind=36 witness=decoded
data_rt!(data_rt_p5_s0_l1_o0, 5, false, true, Some(0));
//@ props=C04,C06,C08,C09 tier=thorough unwind=36 witness=decoded
data_rt!(data_rt_p5_s0_l1_o1, 5, false, true, Some(1));
//@ props=C04,C06,C08,C09 tier=thorough unwind=36 witness=decoded
data_rt!(data_rt_p5_s0_l1_o4, 5, false, true, Some(4));
//@ props=C04,C06,C08,C09,C10 tier=thorough unwind=36 witness=decoded,reencoded
data_rt!(data_rt_p5_s1_l0_on, 5, true, false, None);
//@ props=C04,C06,C08,C09 tier=thorough unwind=36 witness=decoded
data_rt!(data_rt_p5_s1_l0_o0, 5, true, false, Some(0));
//@ props=C04,C06,C08,C09 tier=thorough unwind=36 witness=decoded
data_rt!(data_rt_p5_s1_l0_o1, 5, true, false, Some(1));
//@ props=C04,C06,C08,C09 tier=thorough unwind=36 witness=decoded
data_rt!(data_rt_p5_s1_l0_o4, 5, true, false, Some(4));
//@ props=C04,C06,C08,C09,C10 tier=quick unwind=36 witness=decoded,reencoded
data_rt!(data_rt_p5_s1_l1_on, 5, true, true, None);
//@ props=C04,C06,C08,C09 tier=quick unwind=36 witness=decoded
data_rt!(data_rt_p5_s1_l1_o0, 5, true, true, Some(0));
//@ props=C04,C06,C08,C09 tier=quick unwind=36 witness=decoded
data_rt!(data_rt_p5_s1_l1_o1, 5, true, true, Some(1));
//@ props=C04,C06,C08,C09 tier=quick unwind=36 witness=decoded
data_rt!(data_rt_p5_s1_l1_o4, 5, true, true, Some(4));
//@ props=C04,C06,C08,C09,C10 tier=thorough unwind=36 witness=decoded,reencoded
data_rt!(data_rt_p8_s0_l0_on, 8, false, false, None);
//@ props=C04,C06,C08,C09 tier=thorough unwind=36 witness=decoded
data_rt!(data_rt_p8_s0_l0_o0, 8, false, false, Some(0));
//@ props=C04,C06,C08,C09 tier=thorough unwind=36 witness=decoded
data_rt!(data_rt_p8_s0_l0_o1, 8, false, false, Some(1));
//@ props=C04,C06,C08,C09 tier=thorough unwind=36 witness=decoded
data_rt!(data_rt_p8_s0_l0_o7, 8, false, false, Some(7));
//@ props=C04,C06,C08,C09,C10 tier=thorough unwind=36 witness=decoded,reencoded
data_rt!(data_rt_p8_s0_l1_on, 8, false, true, None);
//@ props=C04,C06,C08,C09 tier=thorough unwind=36 witness=decoded
data_rt!(data_rt_p8_s0_l1_o0, 8, false, true, Some(0));
//@ props=C04,C06,C08,C09 tier=thorough unwind=36 witness=decoded
data_rt!(data_rt_p8_s0_l1_o1, 8, false, true, Some(1));
//@ props=C04,C06,C08,C09 tier=thorough unwind=36 witness=decoded
data_rt!(data_rt_p8_s0_l1_o7, 8, false, true, Some(7));
//@ props=C04,C06,C08,C09,C10 tier=thorough unwind=36 witness=decoded,reencoded
data_rt!(data_rt_p8_s1_l0_on, 8, true, false, None);
//@ props=C04,C06,C08,C09 tier=thorough unwind=36 witness=decoded
data_rt!(data_rt_p8_s1_l0_o0, 8, true, false, Some(0));
//@ props=C04,C06,C08,C09 tier=thorough unwind=36 witness=decoded
data_rt!(data_rt_p8_s1_l0_o1, 8, true, false, Some(1));
//@ props=C04,C06,C08,C09 tier=thorough unwind=36 witness=decoded
data_rt!(data_rt_p8_s1_l0_o7, 8, true, false, Some(7));
//@ props=C04,C06,C08,C09,C10 tier=thorough unwind=36 witness=decoded,reencoded
data_rt!(data_rt_p8_s1_l1_on, 8, true, true, None);
//@ props=C04,C06,C08,C09 tier=thorough unwind=36 witness=decoded
data_rt!(data_rt_p8_s1_l1_o0, 8, true, true, Some(0));
//@ props=C04,C06,C08,C09 tier=thorough unwind=36 witness=decoded
data_rt!(data_rt_p8_s1_l1_o1, 8, true, true, Some(1));
//@ props=C04,C06,C08,C09 tier=thorough unwind=36 witness=decoded
data_rt!(data_rt_p8_s1_l1_o7, 8, true, true, Some(7));

pub const HARNESSES: &[(&str, fn())] = &[
    ("ctrl_enc_k0", ctrl_enc_k0),
    ("ctrl_enc_mt", ctrl_enc_mt),
    ("ctrl_dec_k0", ctrl_dec_k0),
    ("ctrl_dec_mt", ctrl_dec_mt),
    ("ctrl_tail_k0_1", ctrl_tail_k0_1),
    ("ctrl_tail_k0_5", ctrl_tail_k0_5),
    ("ctrl_tail_k0_3", ctrl_tail_k0_3),
    ("ctrl_tail_mt_2", ctrl_tail_mt_2),
    ("ctrl_len_k0", ctrl_len_k0),
    ("ctrl_len_mt", ctrl_len_mt),
    ("avp_len_1022", avp_len_1022),
    ("avp_len_1023", avp_len_1023),
    ("avp_len_1024", avp_len_1024),
    ("avp_len_1025", avp_len_1025),
    ("avp_len_1280", avp_len_1280),
    ("hide_oversize_1018", hide_oversize_1018),
    ("avp_seq_0_7", avp_seq_0_7),
    ("avp_seq_6_39_9", avp_seq_6_39_9),
    ("avp_seq_8_34", avp_seq_8_34),
    ("avp_seq_0_3_11", avp_seq_0_3_11),
    ("data_rt_p1_s0_l0_on", data_rt_p1_s0_l0_on),
    ("data_rt_p1_s0_l0_o0", data_rt_p1_s0_l0_o0),
    ("data_rt_p1_s0_l1_on", data_rt_p1_s0_l1_on),
    ("data_rt_p1_s0_l1_o0", data_rt_p1_s0_l1_o0),
    ("data_rt_p1_s1_l0_on", data_rt_p1_s1_l0_on),
    ("data_rt_p1_s1_l0_o0", data_rt_p1_s1_l0_o0),
    ("data_rt_p1_s1_l1_on", data_rt_p1_s1_l1_on),
    ("data_rt_p1_s1_l1_o0", data_rt_p1_s1_l1_o0),
    ("data_rt_p2_s0_l0_on", data_rt_p2_s0_l0_on),
    ("data_rt_p2_s0_l0_o0", data_rt_p2_s0_l0_o0),
    ("data_rt_p2_s0_l0_o1", data_rt_p2_s0_l0_o1),
    ("data_rt_p2_s0_l1_on", data_rt_p2_s0_l1_on),
    ("data_rt_p2_s0_l1_o0", data_rt_p2_s0_l1_o0),
    ("data_rt_p2_s0_l1_o1", data_rt_p2_s0_l1_o1),
    ("data_rt_p2_s1_l0_on", data_rt_p2_s1_l0_on),
    ("data_rt_p2_s1_l0_o0", data_rt_p2_s1_l0_o0),
    ("data_rt_p2_s1_l0_o1", data_rt_p2_s1_l0_o1),
    ("data_rt_p2_s1_l1_on", data_rt_p2_s1_l1_on),
    ("data_rt_p2_s1_l1_o0", data_rt_p2_s1_l1_o0),
    ("data_rt_p2_s1_l1_o1", data_rt_p2_s1_l1_o1),
    ("data_rt_p5_s0_l0_on", data_rt_p5_s0_l0_on),
    ("data_rt_p5_s0_l0_o0", data_rt_p5_s0_l0_o0),
    ("data_rt_p5_s0_l0_o1", data_rt_p5_s0_l0_o1),
    ("data_rt_p5_s0_l0_o4", data_rt_p5_s0_l0_o4),
    ("data_rt_p5_s0_l1_on", data_rt_p5_s0_l1_on),
    ("data_rt_p5_s0_l1_o0", data_rt_p5_s0_l1_o0),
    ("data_rt_p5_s0_l1_o1", data_rt_p5_s0_l1_o1),
    ("data_rt_p5_s0_l1_o4", data_rt_p5_s0_l1_o4),
    ("data_rt_p5_s1_l0_on", data_rt_p5_s1_l0_on),
    ("data_rt_p5_s1_l0_o0", data_rt_p5_s1_l0_o0),
    ("data_rt_p5_s1_l0_o1", data_rt_p5_s1_l0_o1),
    ("data_rt_p5_s1_l0_o4", data_rt_p5_s1_l0_o4),
    ("data_rt_p5_s1_l1_on", data_rt_p5_s1_l1_on),
    ("data_rt_p5_s1_l1_o0", data_rt_p5_s1_l1_o0),
    ("data_rt_p5_s1_l1_o1", data_rt_p5_s1_l1_o1),
    ("data_rt_p5_s1_l1_o4", data_rt_p5_s1_l1_o4),
    ("data_rt_p8_s0_l0_on", data_rt_p8_s0_l0_on),
    ("data_rt_p8_s0_l0_o0", data_rt_p8_s0_l0_o0),
    ("data_rt_p8_s0_l0_o1", data_rt_p8_s0_l0_o1),
    ("data_rt_p8_s0_l0_o7", data_rt_p8_s0_l0_o7),
    ("data_rt_p8_s0_l1_on", data_rt_p8_s0_l1_on),
    ("data_rt_p8_s0_l1_o0", data_rt_p8_s0_l1_o0),
    ("data_rt_p8_s0_l1_o1", data_rt_p8_s0_l1_o1),
    ("data_rt_p8_s0_l1_o7", data_rt_p8_s0_l1_o7),
    ("data_rt_p8_s1_l0_on", data_rt_p8_s1_l0_on),
    ("data_rt_p8_s1_l0_o0", data_rt_p8_s1_l0_o0),
    ("data_rt_p8_s1_l0_o1", data_rt_p8_s1_l0_o1),
    ("data_rt_p8_s1_l0_o7", data_rt_p8_s1_l0_o7),
    ("data_rt_p8_s1_l1_on", data_rt_p8_s1_l1_on),
    ("data_rt_p8_s1_l1_o0", data_rt_p8_s1_l1_o0),
    ("data_rt_p8_s1_l1_o1", data_rt_p8_s1_l1_o1),
    ("data_rt_p8_s1_l1_o7", data_rt_p8_s1_l1_o7),
];
// GENERATED BY gen.py — END
