//! Abstractions used as Kani stubs (every stub is part of the claim; see
//! DESIGN.md §3.2).  Natively none of them is active: the replay twins run the
//! real functions.

#![allow(static_mut_refs)]

use rl2tp::avp::AVP;
#[allow(unused_imports)]
use rl2tp::common::{DecodeError, Reader};
#[allow(unused_imports)]
use std::borrow::Borrow;

// ---------------------------------------------------------------------------
// MD5 as an uninterpreted function (Ackermann reduction)

pub const UF_MAX_CALLS: usize = 16;
pub const UF_MAX_IN: usize = 40;

#[cfg(kani)]
static mut UF_N: usize = 0;
#[cfg(kani)]
static mut UF_IN: [[u8; UF_MAX_IN]; UF_MAX_CALLS] = [[0; UF_MAX_IN]; UF_MAX_CALLS];
#[cfg(kani)]
static mut UF_LEN: [usize; UF_MAX_CALLS] = [0; UF_MAX_CALLS];
#[cfg(kani)]
static mut UF_OUT: [[u8; 16]; UF_MAX_CALLS] = [[0; 16]; UF_MAX_CALLS];
/// When false the digests are fully nondeterministic (no functional
/// consistency): an over-approximation of every hash and every key mismatch.
#[cfg(kani)]
pub static mut UF_CONSISTENT: bool = true;

#[cfg(kani)]
pub fn hash16(data: &[u8]) -> [u8; 16] {
    unsafe {
        let k = UF_N;
        assert!(k < UF_MAX_CALLS, "uf_md5: too many calls");
        assert!(data.len() <= UF_MAX_IN, "uf_md5: input too long");
        let out: [u8; 16] = kani::any();
        let mut i = 0;
        while i < data.len() {
            UF_IN[k][i] = data[i];
            i += 1;
        }
        UF_LEN[k] = data.len();
        if UF_CONSISTENT {
            let mut j = 0;
            while j < k {
                if UF_LEN[j] == data.len() {
                    let mut eq = true;
                    let mut i = 0;
                    while i < data.len() {
                        if UF_IN[j][i] != data[i] {
                            eq = false;
                        }
                        i += 1;
                    }
                    if eq {
                        kani::assume(out == UF_OUT[j]);
                    }
                }
                j += 1;
            }
        }
        UF_OUT[k] = out;
        UF_N = k + 1;
        out
    }
}

#[cfg(not(kani))]
pub fn hash16(data: &[u8]) -> [u8; 16] {
    md5::compute(data).0
}

/// Stub for `md5::compute`.
pub fn stub_md5_compute<T: AsRef<[u8]>>(data: T) -> md5::Digest {
    md5::Digest(hash16(data.as_ref()))
}

// ---------------------------------------------------------------------------
// UTF-8

/// Stub for `core::str::from_utf8`: the specification's Table 3-7 validator.
pub fn model_from_utf8(v: &[u8]) -> Result<&str, core::str::Utf8Error> {
    if crate::spec::utf8::is_utf8(v) {
        Ok(unsafe { core::str::from_utf8_unchecked(v) })
    } else {
        let mut bad = [0xffu8];
        match core::str::from_utf8_mut(&mut bad) {
            Err(e) => Err(e),
            Ok(_) => unreachable!(),
        }
    }
}

// ---------------------------------------------------------------------------
// decode_avp as an arbitrary total function of its sub-reader

pub const LOG_MAX: usize = 6;

#[derive(Clone, Copy, Debug, PartialEq, Eq)]
pub enum AbsKind {
    OkMessageType,
    OkOther,
    Err,
}

#[derive(Clone, Copy, Debug)]
pub struct AbsCall {
    pub t: u16,
    pub len: usize,
    pub kind: AbsKind,
}

pub static mut ABS_N: usize = 0;
pub static mut ABS_LOG: [AbsCall; LOG_MAX] = [AbsCall {
    t: 0,
    len: 0,
    kind: AbsKind::Err,
}; LOG_MAX];

/// The value `abs_decode` returns for its k-th call, given the kind chosen.
pub fn abs_value(k: usize, kind: AbsKind) -> Result<AVP, DecodeError> {
    match kind {
        AbsKind::OkMessageType => Ok(AVP::MessageType(rl2tp::avp::types::MessageType::Hello)),
        AbsKind::OkOther => Ok(AVP::FirmwareRevision((k as u16).into())),
        AbsKind::Err => Err(DecodeError::IncompleteAVP(k as u16)),
    }
}

pub fn abs_matches(k: usize, kind: AbsKind, r: &Result<AVP, DecodeError>) -> bool {
    match (kind, r) {
        (AbsKind::OkMessageType, Ok(AVP::MessageType(rl2tp::avp::types::MessageType::Hello))) => true,
        (AbsKind::OkOther, Ok(AVP::FirmwareRevision(f))) => f.value == k as u16,
        (AbsKind::Err, Err(DecodeError::IncompleteAVP(x))) => *x == k as u16,
        _ => false,
    }
}

/// Stub for the private `rl2tp::avp::decode_avp`: reads nothing, logs the
/// attribute type and the length of the sub-reader it was handed, returns a
/// nondeterministically chosen result.
#[cfg(kani)]
pub fn abs_decode<T: Borrow<[u8]>, R: Reader<T>>(attribute_type: u16, reader: &mut R) -> Result<AVP, DecodeError> {
    unsafe {
        let k = ABS_N;
        assert!(k < LOG_MAX, "abs_decode: too many calls");
        let c: u8 = kani::any();
        let kind = if c == 0 {
            AbsKind::OkMessageType
        } else if c == 1 {
            AbsKind::OkOther
        } else {
            AbsKind::Err
        };
        ABS_LOG[k] = AbsCall {
            t: attribute_type,
            len: reader.len(),
            kind,
        };
        ABS_N = k + 1;
        abs_value(k, kind)
    }
}

// ---------------------------------------------------------------------------
// try_read_greedy abstracted to "the region holds no AVP"
//
// Measured (Kani 0.68): a stub for this associated function that builds a
// non-empty Vec, or that writes a static, yields spurious memory-safety
// failures in the goto program (the same bodies are fine as stubs for
// `decode_avp`), and the control layer's own handling of two or more results
// does not finish anyway (DESIGN.md §2 P11/P23).  So the only abstraction used
// is the empty list; AVP lists are handled with the real record walker over
// concrete skeletons (h_ctrl.rs) and fully symbolically one layer down
// (h_greedy.rs).

#[cfg(kani)]
pub fn abs_greedy_k0<T: Borrow<[u8]>, R: Reader<T>>(reader: &mut R) -> Vec<Result<AVP, DecodeError>> {
    let _ = reader.len();
    Vec::new()
}

/// Kani computes which items a harness needs before it swaps stub bodies in;
/// harnesses that use the stubs call this first so that everything the stubs
/// use is also reachable from the harness itself.
pub fn touch() {
    touch_md5(false);
    let mut tv: Vec<Result<AVP, DecodeError>> = Vec::new();
    tv.push(abs_value(0, AbsKind::OkOther));
    tv.push(abs_value(1, AbsKind::Err));
    tv.push(abs_value(2, AbsKind::OkMessageType));
    std::mem::forget(tv);
}

/// Instantiations of the md5 stub for the argument types a refactored caller
/// might pass (`md5::compute` is generic over `AsRef<[u8]>`): statically
/// reachable, never executed.
fn touch_md5(run: bool) {
    if run {
        let v: Vec<u8> = Vec::new();
        let _ = stub_md5_compute(&v);
        let _ = stub_md5_compute(&v[..]);
        let _ = stub_md5_compute(&mut v.clone());
        let _ = stub_md5_compute([0u8; 4]);
        let _ = stub_md5_compute(&[0u8; 4]);
        let _ = stub_md5_compute(v);
    }
}
