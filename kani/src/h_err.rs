//! C20 (rendering) and the symbolic-type dispatch harnesses (L2): one record
//! whose attribute type is a symbolic u16 through the real record walker and
//! the real `decode_avp` dispatch (C16 attribute types, C05, C20).

use crate::spec::avp as sa;
use crate::spec::bytes_eq;
use crate::{check, nd, require, witness};
use rl2tp::avp::AVP;
use rl2tp::common::{DecodeError as DE, SliceReader};

/// RFC 2661 §4.4 AVP names in the crate's spelling (its `AVP` variant names),
/// by attribute type; `None` for unassigned numbers.
pub fn spec_avp_name(t: u16) -> Option<&'static str> {
    Some(match t {
        0 => "MessageType",
        1 => "ResultCode",
        2 => "ProtocolVersion",
        3 => "FramingCapabilities",
        4 => "BearerCapabilities",
        5 => "TieBreaker",
        6 => "FirmwareRevision",
        7 => "HostName",
        8 => "VendorName",
        9 => "AssignedTunnelId",
        10 => "ReceiveWindowSize",
        11 => "Challenge",
        12 => "Q931CauseCode",
        13 => "ChallengeResponse",
        14 => "AssignedSessionId",
        15 => "CallSerialNumber",
        16 => "MinimumBps",
        17 => "MaximumBps",
        18 => "BearerType",
        19 => "FramingType",
        21 => "CalledNumber",
        22 => "CallingNumber",
        23 => "SubAddress",
        24 => "TxConnectSpeed",
        25 => "PhysicalChannelId",
        26 => "InitialReceivedLcpConfReq",
        27 => "LastSentLcpConfReq",
        28 => "LastReceivedLcpConfReq",
        29 => "ProxyAuthenType",
        30 => "ProxyAuthenName",
        31 => "ProxyAuthenChallenge",
        32 => "ProxyAuthenId",
        33 => "ProxyAuthenResponse",
        34 => "CallErrors",
        35 => "Accm",
        36 => "RandomVector",
        37 => "PrivateGroupId",
        38 => "RxConnectSpeed",
        39 => "SequencingRequired",
        _ => return None,
    })
}

/// Decimal rendering of a u16 without `fmt` (at most five digits).
fn decimal(x: u16, out: &mut [u8; 5]) -> usize {
    let d = [(x / 10000) % 10, (x / 1000) % 10, (x / 100) % 10, (x / 10) % 10, x % 10];
    let mut start = 0;
    while start < 4 && d[start] == 0 {
        start += 1;
    }
    let mut n = 0;
    let mut i = start;
    while i < 5 {
        out[n] = b'0' + d[i] as u8;
        n += 1;
        i += 1;
    }
    n
}

/// Does `s` equal prefix ++ name-or-number(t) ++ suffix ?
fn rendered_ok(s: &str, prefix: &str, t: u16, suffix: &str) -> bool {
    let mut num = [0u8; 5];
    let k = decimal(t, &mut num);
    let mid: &[u8] = match spec_avp_name(t) {
        Some(n) => n.as_bytes(),
        None => &num[..k],
    };
    let b = s.as_bytes();
    let (p, q) = (prefix.as_bytes(), suffix.as_bytes());
    b.len() == p.len() + mid.len() + q.len()
        && bytes_eq(&b[..p.len()], p)
        && bytes_eq(&b[p.len()..p.len() + mid.len()], mid)
        && bytes_eq(&b[p.len() + mid.len()..], q)
}

/// Rendering of one of the three AVP-related errors for every attribute type
/// number (which: 0 IncompleteAVP, 1 InvalidUtf8, 2 AVPReadError).
pub fn display_avp_error_body(which: u8) {
    // the full 16-bit range for the first variant; 0..=255 (every assigned
    // type and 216 unassigned ones) for the two longer messages, whose
    // formatting otherwise exhausts memory in propositional reduction
    let t: u16 = if which == 0 { nd::any() } else { nd::any::<u8>() as u16 };
    if which == 0 {
        let s1 = DE::IncompleteAVP(t).to_string();
        check!(rendered_ok(&s1, "Incomplete AVP (", t, ")"), "C20: IncompleteAVP renders with the name of the AVP kind of that attribute type (the number when unassigned)");
    } else if which == 1 {
        let s2 = DE::InvalidUtf8(t).to_string();
        check!(rendered_ok(&s2, "AVP (", t, ") with invalid UTF-8 string payload"), "C20: InvalidUtf8 renders with the name of the AVP kind of that attribute type (the number when unassigned)");
    } else {
        let s3 = DE::AVPReadError(t).to_string();
        check!(rendered_ok(&s3, "Read error when parsing AVP (", t, ")"), "C20: AVPReadError renders with the name of the AVP kind of that attribute type (the number when unassigned)");
    }
    witness!(t == 36, "random_vector");
    witness!(t == 20, "unassigned_20");
    witness!(t == 65535 || (which != 0 && t == 255), "unassigned_max");
}

/// Every other variant renders (terminates, non-empty) for every payload.
pub fn display_other_errors_body() {
    let x: u16 = nd::any();
    let y: u8 = nd::any();
    let all = [
        DE::UnknownMessageType(x),
        DE::InvalidResultCodeErrorType(x),
        DE::InvalidAVPLength(x),
        DE::UnknownAvp(x),
        DE::EmptyHiddenAVP,
        DE::MisalignedHiddenAVP,
        DE::InvalidOriginalAVPLength(x),
        DE::UnsupportedVendorId(x),
        DE::InvalidVersion(y),
        DE::InvalidReservedBits,
        DE::IncompleteFlags,
        DE::InvalidOffset(x),
        DE::IncompleteDataMessageHeader,
        DE::IncompleteDataMessagePayload,
        DE::EmptyDataMessagePayload,
        DE::MessageReadError,
        DE::ForbiddenControlMessagePriority,
        DE::ForbiddenControlMessageOffset,
        DE::ControlMessageWithoutLength,
        DE::ControlMessageWithoutNsNr,
        DE::IncompleteControlMessageHeader,
        DE::IncompleteControlMessagePayload,
        DE::ControlMessageTypeNotFirst,
    ];
    let mut i = 0;
    while i < all.len() {
        let s = all[i].to_string();
        check!(!s.is_empty(), "C20: rendering a decode error as text succeeds and is non-empty for every payload value");
        i += 1;
    }
    // value-carrying variants show their value
    let mut num = [0u8; 5];
    let k = decimal(x, &mut num);
    let s = DE::UnknownAvp(x).to_string();
    let b = s.as_bytes();
    check!(b.len() >= k + 1 && bytes_eq(&b[b.len() - k - 1..b.len() - 1], &num[..k]), "C20: UnknownAvp renders the offending attribute type number");
    witness!(x == 65535, "max");
}

/// One record with a symbolic attribute type and N symbolic payload octets
/// through the real dispatch (string validation replaced by the Table 3-7
/// model, which the leaf harnesses tie to the real `from_utf8`).
pub fn dispatch_body<const N: usize>() {
    let t: u16 = nd::any();
    let payload: [u8; N] = nd::any();
    let mut buf = [0u8; 40];
    buf[0] = 0x01;
    buf[1] = (6 + N) as u8;
    buf[4] = (t >> 8) as u8;
    buf[5] = t as u8;
    let mut i = 0;
    while i < N {
        buf[6 + i] = payload[i];
        i += 1;
    }
    let rec = &buf[..6 + N];
    let res = AVP::try_read_greedy(&mut SliceReader::from(rec));
    require!(res.len() == 1, "C05,C15: a single well-delimited record yields exactly one result");
    let spec = sa::spec_leaf(t, &rec[6..]);
    check!(res[0].is_ok() == spec.ok, "C05,C16: an attribute type / payload is accepted iff the specification accepts it (assigned types 0-19, 21-39 only)");
    check!(sa::result_matches(&res[0], &spec), "C05,C16,C20: every attribute type number dispatches to the AVP kind RFC 2661 assigns to it, with the specified value or error (UnknownAvp(type) when unassigned)");
    if !sa::attribute_type_assigned(t) {
        check!(matches!(res[0], Err(DE::UnknownAvp(x)) if x == t), "C16,C20: an unassigned attribute type is reported as UnknownAvp(type)");
    }
    witness!(t == 20, "unassigned_20");
    witness!(t == 39, "sequencing_required");
    witness!(t == 40, "unassigned_40");
    witness!(t == 7 && res[0].is_ok() == (N > 0), "host_name");
    std::mem::forget(res);
}

//@ props=C20 tier=quick unwind=60 witness=random_vector,unassigned_20,unassigned_max cap=1500 mem=24
pub fn display_incomplete_avp() {
    display_avp_error_body(0)
}
// InvalidUtf8(t) (the longest of the three messages) exhausts 44 GB in
// propositional reduction even for t <= 255: its rendering goes through the
// same `avp_name` call as the two variants decided here but is itself not
// decided symbolically (the body stays available to the native smoke test).
#[allow(dead_code)]
pub fn display_invalid_utf8() {
    display_avp_error_body(1)
}
//@ props=C20 tier=quick unwind=60 witness=random_vector,unassigned_20,unassigned_max cap=1500 mem=24
pub fn display_avp_read_error() {
    display_avp_error_body(2)
}
//@ props=C20 tier=quick unwind=60 witness=max cap=1500
pub fn display_other_errors() {
    display_other_errors_body()
}
//@ props=C16,C05,C20,C01 tier=quick unwind=12 stubs=utf8 witness=unassigned_20,sequencing_required,unassigned_40,host_name cap=1800
pub fn dispatch_2() {
    dispatch_body::<2>()
}
//@ props=C16,C05,C20,C01 tier=thorough unwind=12 stubs=utf8 witness=unassigned_20,sequencing_required,unassigned_40,host_name cap=3000
pub fn dispatch_0() {
    dispatch_body::<0>()
}
//@ props=C16,C05,C20,C01 tier=thorough unwind=14 stubs=utf8 witness=unassigned_20,sequencing_required,unassigned_40,host_name cap=3000
pub fn dispatch_4() {
    dispatch_body::<4>()
}
//@ props=C16,C05,C20,C01 tier=thorough unwind=20 stubs=utf8 witness=unassigned_20,sequencing_required,unassigned_40,host_name cap=3000
pub fn dispatch_10() {
    dispatch_body::<10>()
}
//@ props=C16,C05,C20,C01 tier=thorough unwind=36 stubs=utf8 witness=unassigned_20,sequencing_required,unassigned_40,host_name cap=3600
pub fn dispatch_26() {
    dispatch_body::<26>()
}

pub const HARNESSES: &[(&str, fn())] = &[
    ("display_incomplete_avp", display_incomplete_avp),
    ("display_invalid_utf8", display_invalid_utf8),
    ("display_avp_read_error", display_avp_read_error),
    ("display_other_errors", display_other_errors),
    ("dispatch_0", dispatch_0),
    ("dispatch_2", dispatch_2),
    ("dispatch_4", dispatch_4),
    ("dispatch_10", dispatch_10),
    ("dispatch_26", dispatch_26),
];
