//! C18: `SliceReader` is a plain cursor, `VecWriter` a plain byte vector —
//! symbolic operation sequences against reference models.

use crate::spec::{be16, be32, be64, bytes_eq};
use crate::{check, nd, witness};
use rl2tp::common::{Reader, SliceReader, VecWriter, Writer};

/// K operations (kind and argument symbolic) on a reader over L symbolic octets.
pub fn reader_ops_body<const L: usize, const K: usize>() {
    let data: [u8; L] = nd::any();
    let mut r = SliceReader::from(&data);
    let mut pos: usize = 0;
    let mut step = 0;
    let mut stopped = false;
    while step < K {
        let op: u8 = nd::any();
        let n: u8 = nd::any();
        let n = n as usize;
        let rem = L - pos;
        if !stopped {
            check!(r.len() == rem && r.is_empty() == (rem == 0), "C18: the reader reports exactly the octets that remain");
            if op == 0 {
                nd::assume(rem >= 1);
                let v = unsafe { r.read_u8_unchecked() };
                check!(v == data[pos], "C18: read_u8 returns the next octet");
                pos += 1;
            } else if op == 1 {
                nd::assume(rem >= 2);
                let v = unsafe { r.read_u16_be_unchecked() };
                check!(v == be16(&data, pos), "C18: read_u16 returns the next two octets, big-endian");
                pos += 2;
            } else if op == 2 {
                nd::assume(rem >= 4);
                let v = unsafe { r.read_u32_be_unchecked() };
                check!(v == be32(&data, pos), "C18: read_u32 returns the next four octets, big-endian");
                pos += 4;
            } else if op == 3 {
                nd::assume(rem >= 8);
                let v = unsafe { r.read_u64_be_unchecked() };
                check!(v == be64(&data, pos), "C18: read_u64 returns the next eight octets, big-endian");
                pos += 8;
            } else if op == 4 {
                // any n, also beyond what remains
                match r.bytes(n) {
                    Some(s) => {
                        check!(n <= rem, "C18: a slice request longer than what remains returns nothing");
                        check!(bytes_eq(s, &data[pos..pos + n]), "C18: bytes(n) returns exactly the next n octets");
                        pos += n;
                    }
                    None => {
                        check!(n > rem, "C18: a slice request within what remains is served");
                        // no position policy is demanded after a refused request
                        stopped = true;
                        witness!(true, "refused");
                    }
                }
            } else if op == 5 {
                nd::assume(n <= rem);
                r.skip_bytes(n);
                pos += n;
            } else {
                nd::assume(n <= rem);
                let mut child = r.subreader(n);
                check!(child.len() == n, "C18: a sub-reader covers exactly the requested octets");
                check!(r.len() == rem - n, "C18: taking a sub-reader advances the parent by exactly the requested amount");
                if n >= 1 {
                    let v = unsafe { child.read_u8_unchecked() };
                    check!(v == data[pos], "C18: a sub-reader starts at the parent's position");
                    check!(child.len() == n - 1 && r.len() == rem - n, "C18: reading from a sub-reader does not move the parent");
                }
                pos += n;
            }
        }
        step += 1;
    }
    if !stopped {
        check!(r.len() == L - pos, "C18: after any sequence the reader stands at the sum of the amounts requested");
    }
    witness!(!stopped && pos == L, "consumed_all");
}

pub const WMAX: usize = 40;

/// A fixed sequence of writer operation *kinds* (values, and the offsets of
/// positional overwrites, symbolic) against an array model.  Operation kinds
/// are constants because a `Vec` of symbolic length makes every later append a
/// copy at a symbolic position (measured: 3 symbolic-kind operations exhaust
/// 14 GB); (kind, n): 0 u8, 1 u16, 2 u32, 3 u64, 4 write_bytes of n octets,
/// 5 write_bytes_at of n octets at a symbolic offset inside the data.
pub fn writer_seq_body(ops: &[(u8, usize)]) {
    let mut w = VecWriter::new();
    let mut model = [0u8; WMAX];
    let mut len: usize = 0;
    let mut step = 0;
    while step < ops.len() {
        let (op, n) = ops[step];
        let v: u64 = nd::any();
        let off: u8 = nd::any();
        let b = v.to_be_bytes();
        check!(w.len() == len && w.is_empty() == (len == 0), "C18: the writer reports the number of octets written");
        if op == 0 {
            w.write_u8(b[7]);
            model[len] = b[7];
            len += 1;
        } else if op == 1 {
            w.write_u16_be(v as u16);
            model[len] = b[6];
            model[len + 1] = b[7];
            len += 2;
        } else if op == 2 {
            w.write_u32_be(v as u32);
            let mut i = 0;
            while i < 4 {
                model[len + i] = b[4 + i];
                i += 1;
            }
            len += 4;
        } else if op == 3 {
            w.write_u64_be(v);
            let mut i = 0;
            while i < 8 {
                model[len + i] = b[i];
                i += 1;
            }
            len += 8;
        } else if op == 4 {
            w.write_bytes(&b[..n]);
            let mut i = 0;
            while i < n {
                model[len + i] = b[i];
                i += 1;
            }
            len += n;
        } else {
            // positional overwrite that lies inside the written data
            let off = off as usize;
            nd::assume(off + n <= len);
            w.write_bytes_at(&b[..n], off);
            let mut i = 0;
            while i < n {
                model[off + i] = b[i];
                i += 1;
            }
            check!(w.len() == len, "C18: a positional overwrite never changes the length");
            witness!(off + n == len, "overwrite_touches_last_octet");
            witness!(off == 0, "overwrite_at_start");
        }
        step += 1;
    }
    check!(w.data.len() == len, "C18: the buffer holds exactly the appended octets");
    check!(bytes_eq(&w.data, &model[..len]), "C18: the buffer equals the appended octets with positional overwrites applied in place");
    witness!(true, "completed");
}

/// An overwrite that does not lie inside the written data is refused (panics).
pub fn writer_overwrite_oob_body() {
    let mut w = VecWriter::new();
    let pre: u8 = nd::any();
    nd::assume(pre <= 4);
    let mut i = 0;
    while i < pre {
        w.write_u8(i);
        i += 1;
    }
    let off: u8 = nd::any();
    let n: u8 = nd::any();
    nd::assume(n >= 1 && n <= 2);
    nd::assume(off as usize + n as usize > pre as usize);
    nd::assume(off <= 8);
    let b = [0xAAu8, 0xBB];
    w.write_bytes_at(&b[..n as usize], off as usize);
    // reaching this point means the overwrite was not refused: the runner
    // requires this witness to be UNSATISFIABLE (`forbid=`)
    witness!(true, "C18: an overwrite that does not lie inside the written data is refused");
}

//@ props=C18 tier=quick unwind=12
pub fn reader_ops_8_3() {
    reader_ops_body::<8, 3>()
}
//@ props=C18 tier=quick unwind=12 witness=refused cap=1500
pub fn reader_ops_8_4() {
    reader_ops_body::<8, 4>()
}
//@ props=C18 tier=thorough unwind=16 witness=refused,consumed_all cap=3000
pub fn reader_ops_12_5() {
    reader_ops_body::<12, 5>()
}
//@ props=C18,C09 tier=quick unwind=32 witness=completed,overwrite_touches_last_octet,overwrite_at_start
pub fn writer_seq_a() {
    writer_seq_body(&[(0, 0), (1, 0), (5, 2), (2, 0), (5, 1), (4, 3), (3, 0), (5, 2)])
}
//@ props=C18,C09 tier=quick unwind=32 witness=completed,overwrite_touches_last_octet
pub fn writer_seq_b() {
    writer_seq_body(&[(4, 0), (3, 0), (5, 8), (4, 1), (1, 0), (5, 1), (0, 0)])
}
//@ props=C18,C09 tier=thorough unwind=40 witness=completed,overwrite_touches_last_octet
pub fn writer_seq_c() {
    writer_seq_body(&[(2, 0), (5, 4), (5, 1), (3, 0), (4, 2), (5, 2), (1, 0), (0, 0), (5, 3), (2, 0), (4, 5), (5, 2)])
}
//@ props=C18 tier=quick unwind=8 expect=panic forbid=refused
pub fn writer_overwrite_oob() {
    writer_overwrite_oob_body()
}

pub const HARNESSES: &[(&str, fn())] = &[
    ("reader_ops_8_3", reader_ops_8_3),
    ("reader_ops_8_4", reader_ops_8_4),
    ("reader_ops_12_5", reader_ops_12_5),
    ("writer_seq_a", writer_seq_a),
    ("writer_seq_b", writer_seq_b),
    ("writer_seq_c", writer_seq_c),
    ("writer_overwrite_oob", writer_overwrite_oob),
];
