//! L4 / L5: `Message::try_read[_validate]` on n fully symbolic octets with
//! symbolic validation options.  The AVP region of control messages is handed
//! to `AVP::try_read_greedy`, which is replaced here by `abs_greedy` (an
//! arbitrary list of at most one result; DESIGN.md §3.2) — natively (replay)
//! the real one runs and the expectation is computed by the full
//! specification instead.

#![allow(static_mut_refs)]

use crate::model::MonitorReader;
use crate::spec::avp as sa;
use crate::spec::msg as sm;
use crate::spec::{be16, bytes_eq};
#[allow(unused_imports)]
use crate::stubs;
use crate::{check, nd, witness};
use rl2tp::avp::AVP;
use rl2tp::common::{DecodeError as DE, Reader, SliceReader};
use rl2tp::{DataMessage, Message, ValidateReserved, ValidateUnused, ValidateVersion, ValidationOptions};

pub type Res<'a> = Result<Message<&'a [u8]>, Vec<DE>>;

pub fn sym_opts() -> (sm::Opts, ValidationOptions) {
    let o = sm::Opts {
        reserved: nd::any(),
        version: nd::any(),
        unused: nd::any(),
    };
    (o, real_opts(o))
}

pub fn real_opts(o: sm::Opts) -> ValidationOptions {
    ValidationOptions {
        reserved: if o.reserved { ValidateReserved::Yes } else { ValidateReserved::No },
        version: if o.version { ValidateVersion::Yes } else { ValidateVersion::No },
        unused: if o.unused { ValidateUnused::Yes } else { ValidateUnused::No },
    }
}

pub const NONE: sm::Opts = sm::Opts {
    reserved: false,
    version: false,
    unused: false,
};

fn data_matches(d: &DataMessage<&[u8]>, s: &sm::SpecData, b: &[u8]) -> bool {
    d.is_prioritized == s.priority
        && d.length == s.length
        && d.tunnel_id == s.tunnel_id
        && d.session_id == s.session_id
        && d.ns_nr == s.ns_nr
        && d.offset.is_none()
        && bytes_eq(d.data, &b[s.start..s.end])
}

/// What the specification says about the AVP region of a control message.
pub struct RegionVerdict {
    pub accept: bool,
    pub n_records: usize,
    pub n_errors: usize,
    pub first_is_message_type: bool,
}

/// Full-specification walk of an AVP region (used natively, and by the
/// skeleton harnesses): every record decoded by `spec_leaf`.
pub fn spec_region(b: &[u8]) -> RegionVerdict {
    let mut i = 0;
    let mut n_records = 0;
    let mut n_errors = 0;
    let mut first_mt = false;
    loop {
        let (k, next) = sa::spec_record_at(b, i);
        let ok = match k {
            sa::RecKind::End => break,
            sa::RecKind::BadLength => false,
            sa::RecKind::Vendor(_) => false,
            sa::RecKind::Hidden { .. } => true,
            sa::RecKind::Plain { t, start, end } => {
                let l = sa::spec_leaf(t, &b[start..end]);
                if n_records == 0 && l.ok && t == 0 {
                    first_mt = true;
                }
                l.ok
            }
        };
        n_records += 1;
        if !ok {
            n_errors += 1;
        }
        if matches!(k, sa::RecKind::BadLength) {
            break;
        }
        i = next;
    }
    RegionVerdict {
        accept: n_records == 0 || (first_mt && n_errors == 0),
        n_records,
        n_errors,
        first_is_message_type: first_mt,
    }
}

/// Compare one decode result with the specification.  `remaining` is what the
/// reader reports after the call.
pub fn check_against_spec(b: &[u8], o: sm::Opts, r: &Res, remaining: usize) {
    let n = b.len();
    if let Err(e) = r {
        check!(!e.is_empty(), "C01,C15: a rejected message comes with a non-empty error list");
    }
    if n < 2 {
        check!(r.is_err(), "C05: fewer than two octets cannot hold the flag word");
        return;
    }
    let w = be16(b, 0);
    let early = sm::spec_early(w, o);
    if early != sm::Early::Pass {
        check!(r.is_err(), "C05,C14: an enabled validation option rejects the flag word");
        if let (sm::Early::BadVersion(v), 1, Err(e)) = (early, sm::early_fault_count(w, o), r) {
            check!(e.len() == 1 && e[0] == DE::InvalidVersion(v), "C20: a wrong version nibble is reported as InvalidVersion(nibble)");
        }
        return;
    }
    let f = sm::spec_flags(w);
    if !f.control {
        match sm::spec_data(b) {
            Ok(s) => {
                match r {
                    Ok(Message::Data(d)) => {
                        check!(data_matches(d, &s, b), "C05,C04: decoded data message equals the specified one field for field (ids, Ns/Nr, priority, length, payload, no offset)");
                    }
                    _ => check!(false, "C05: the decoder accepts the data message the specification accepts"),
                }
                let consumed = match s.length {
                    Some(l) => l as usize,
                    None => n,
                };
                check!(remaining == n - consumed, "C08: decoding a data message consumes exactly the declared length (everything when no length field)");
            }
            Err(sm::DataErr::Offset(off)) => match r {
                Err(e) => check!(e.len() == 1 && e[0] == DE::InvalidOffset(off), "C20: an offset size larger than what remains is reported as InvalidOffset(size)"),
                Ok(_) => check!(false, "C05: a data message whose offset pad exceeds the input is rejected"),
            },
            Err(sm::DataErr::Other) => check!(r.is_err(), "C05: the decoder rejects the data message the specification rejects"),
        }
        witness!(r.is_ok(), "data_accepted");
        return;
    }
    // control message
    let h = match sm::spec_ctrl_header(b) {
        Err(()) => {
            check!(r.is_err(), "C05: the decoder rejects the control header the specification rejects");
            return;
        }
        Ok(h) => h,
    };
    let region = &b[12..h.length as usize];
    #[cfg(kani)]
    unsafe {
        check!(stubs::GREEDY_CALLS >= 1, "C05: the AVP region of an acceptable control header is handed to the AVP list decoder");
        check!(stubs::GREEDY_REGION == region.len(), "C05,C08: the AVP list decoder is confined to exactly Length - 12 octets");
        // expectation from the abstract list the stub returned
        let k = stubs::GREEDY_LEN;
        let mut n_err = 0;
        let mut i = 0;
        while i < k {
            if stubs::GREEDY_KINDS[i] == stubs::AbsKind::Err {
                n_err += 1;
            }
            i += 1;
        }
        let first_mt = k > 0 && stubs::GREEDY_KINDS[0] == stubs::AbsKind::OkMessageType;
        let accept = k == 0 || (first_mt && n_err == 0);
        match r {
            Ok(Message::Control(c)) => {
                check!(accept, "C05,C15: a control message is accepted only if every AVP decodes and the first one is a Message Type");
                check!(
                    c.length == h.length && c.tunnel_id == h.tunnel_id && c.session_id == h.session_id && c.ns == h.ns && c.nr == h.nr,
                    "C05: control header fields equal the specified ones (Length, Tunnel ID, Session ID, Ns, Nr in RFC 2661 order)"
                );
                check!(c.avps.len() == k, "C05,C15: an accepted control message carries one AVP per record");
                let mut i = 0;
                while i < k {
                    check!(stubs::abs_matches(i, stubs::GREEDY_KINDS[i], &Ok(c.avps[i].clone())), "C15: the AVP list is passed on unchanged and in wire order");
                    i += 1;
                }
                check!(remaining == n - h.length as usize, "C08: decoding a control message consumes exactly Length octets");
            }
            Ok(Message::Data(_)) => check!(false, "C05: the T bit selects the control decoder"),
            Err(e) => {
                check!(!accept, "C05,C15: a control message whose AVPs all decode (first one a Message Type, or none at all) is accepted");
                if !first_mt {
                    check!(e.len() == 1 && e[0] == DE::ControlMessageTypeNotFirst, "C15: a first AVP that is not a valid Message Type is reported as ControlMessageTypeNotFirst");
                } else {
                    check!(e.len() == n_err, "C15: exactly one error per undecodable AVP record");
                    let mut j = 0;
                    let mut i = 0;
                    while i < k {
                        if stubs::GREEDY_KINDS[i] == stubs::AbsKind::Err {
                            check!(j < e.len() && stubs::abs_matches(i, stubs::AbsKind::Err, &Err(clone_err(&e[j]))), "C15: errors are reported in wire order, each attributable to its record");
                            j += 1;
                        }
                        i += 1;
                    }
                }
                witness!(first_mt && n_err >= 1, "errors_listed");
            }
        }
    }
    #[cfg(not(kani))]
    {
        let v = spec_region(region);
        match r {
            Ok(Message::Control(c)) => {
                check!(v.accept, "C05,C15: a control message is accepted only if every AVP decodes and the first one is a Message Type");
                check!(
                    c.length == h.length && c.tunnel_id == h.tunnel_id && c.session_id == h.session_id && c.ns == h.ns && c.nr == h.nr,
                    "C05: control header fields equal the specified ones (Length, Tunnel ID, Session ID, Ns, Nr in RFC 2661 order)"
                );
                check!(c.avps.len() == v.n_records, "C05,C15: an accepted control message carries one AVP per record");
                check!(remaining == n - h.length as usize, "C08: decoding a control message consumes exactly Length octets");
            }
            Ok(Message::Data(_)) => check!(false, "C05: the T bit selects the control decoder"),
            Err(e) => {
                check!(!v.accept, "C05,C15: a control message whose AVPs all decode (first one a Message Type, or none at all) is accepted");
                if v.first_is_message_type {
                    check!(e.len() == v.n_errors, "C15: exactly one error per undecodable AVP record");
                }
            }
        }
    }
    witness!(r.is_ok(), "control_accepted");
}

/// The only value-carrying error the abstract list uses.
#[allow(dead_code)]
fn clone_err(e: &DE) -> DE {
    match e {
        DE::IncompleteAVP(x) => DE::IncompleteAVP(*x),
        _ => DE::MessageReadError,
    }
}

#[allow(unused_variables)]
fn set_list_len(k: usize) {
    #[cfg(kani)]
    unsafe {
        stubs::GREEDY_LEN = k;
    }
}

/// L5 body: one decode of N symbolic octets under symbolic options vs the
/// specification, with the `SliceReader`; K = length of the abstract AVP list.
pub fn msg_dec_body<const N: usize, const K: usize>() {
    set_list_len(K);
    let b: [u8; N] = nd::any();
    let (o, ro) = sym_opts();
    let mut r = SliceReader::from(&b);
    let res: Res = Message::try_read_validate(&mut r, ro);
    check_against_spec(&b, o, &res, r.len());
    witness!(res.is_err(), "rejected");
    std::mem::forget(res);
}

/// Same with the contract-monitoring reader (C02).
pub fn msg_dec_mon_body<const N: usize, const K: usize>() {
    set_list_len(K);
    let b: [u8; N] = nd::any();
    let (o, ro) = sym_opts();
    let mut r = MonitorReader::from(&b);
    let res: Res = Message::try_read_validate(&mut r, ro);
    check_against_spec(&b, o, &res, r.len());
    witness!(res.is_err(), "rejected");
    std::mem::forget(res);
}

/// Field-wise equality of two decode results of the same input.
pub fn results_equal(a: &Res, b: &Res) -> bool {
    match (a, b) {
        (Ok(Message::Data(x)), Ok(Message::Data(y))) => {
            x.is_prioritized == y.is_prioritized
                && x.length == y.length
                && x.tunnel_id == y.tunnel_id
                && x.session_id == y.session_id
                && x.ns_nr == y.ns_nr
                && x.offset == y.offset
                && bytes_eq(x.data, y.data)
        }
        (Ok(Message::Control(x)), Ok(Message::Control(y))) => {
            x.length == y.length
                && x.tunnel_id == y.tunnel_id
                && x.session_id == y.session_id
                && x.ns == y.ns
                && x.nr == y.nr
                && avps_equal(&x.avps, &y.avps)
        }
        (Err(x), Err(y)) => {
            if x.len() != y.len() {
                return false;
            }
            let mut i = 0;
            while i < x.len() {
                if x[i] != y[i] {
                    return false;
                }
                i += 1;
            }
            true
        }
        _ => false,
    }
}

fn avps_equal(x: &Vec<AVP>, y: &Vec<AVP>) -> bool {
    if x.len() != y.len() {
        return false;
    }
    let mut i = 0;
    while i < x.len() {
        if x[i] != y[i] {
            return false;
        }
        i += 1;
    }
    true
}

/// C14: the same input under symbolic options, under no options, and through
/// the default entry point.
pub fn opts_body<const N: usize, const K: usize>() {
    set_list_len(K);
    let b: [u8; N] = nd::any();
    let (o, ro) = sym_opts();
    let r_opts: Res = Message::try_read_validate(&mut SliceReader::from(&b), ro);
    let r_none: Res = Message::try_read_validate(&mut SliceReader::from(&b), real_opts(NONE));
    if N >= 2 {
        let w = be16(&b, 0);
        let early = sm::spec_early(w, o);
        if early == sm::Early::Pass {
            check!(results_equal(&r_opts, &r_none), "C14: when no enabled check fires, the result is the one obtained with all checks off (options only restrict; version / reserved / control P,O bits have no other influence)");
        } else {
            check!(r_opts.is_err(), "C14: an enabled check that fires rejects the message");
        }
        witness!(early == sm::Early::Pass && r_opts.is_ok(), "pass_and_ok");
        witness!(early != sm::Early::Pass && r_none.is_ok(), "restricted");
    } else {
        check!(r_opts.is_err() && r_none.is_err(), "C05: fewer than two octets cannot hold the flag word");
    }
    // default entry point = version check alone
    let r_def: Res = Message::try_read(&mut SliceReader::from(&b));
    let r_ver: Res = Message::try_read_validate(
        &mut SliceReader::from(&b),
        real_opts(sm::Opts {
            reserved: false,
            version: true,
            unused: false,
        }),
    );
    check!(results_equal(&r_def, &r_ver), "C14: the default entry point behaves as version checking alone");
    std::mem::forget((r_opts, r_none, r_def, r_ver));
}

/// C14, bit-independence: flipping version / reserved / (control) P,O bits does
/// not change the result when all checks are off.
pub fn bits_body<const N: usize, const K: usize>() {
    set_list_len(K);
    let b: [u8; N] = nd::any();
    let mask: u16 = nd::any();
    let w = be16(&b, 0);
    let control = w & sm::T_BIT != 0;
    // version nibble and reserved bits always; P and O only on control messages
    let allowed = 0x00F0 | sm::RESERVED_MASK | if control { sm::P_BIT | sm::O_BIT } else { 0 };
    nd::assume(mask & !allowed == 0);
    let mut b2 = b;
    let w2 = w ^ mask;
    b2[0] = (w2 >> 8) as u8;
    b2[1] = (w2 & 0xff) as u8;
    let r1: Res = Message::try_read_validate(&mut SliceReader::from(&b), real_opts(NONE));
    let r2: Res = Message::try_read_validate(&mut SliceReader::from(&b2), real_opts(NONE));
    check!(results_equal(&r1, &r2), "C14: with a check switched off, the bits it guards do not affect the result");
    witness!(mask != 0 && r1.is_ok(), "flipped_and_ok");
    std::mem::forget((r1, r2));
}

macro_rules! msg_dec {
    ($name:ident, $n:expr, $k:expr) => {
        pub fn $name() {
            msg_dec_body::<$n, $k>()
        }
    };
}
macro_rules! msg_dec_mon {
    ($name:ident, $n:expr, $k:expr) => {
        pub fn $name() {
            msg_dec_mon_body::<$n, $k>()
        }
    };
}
macro_rules! opts {
    ($name:ident, $n:expr, $k:expr) => {
        pub fn $name() {
            opts_body::<$n, $k>()
        }
    };
}
macro_rules! bits {
    ($name:ident, $n:expr, $k:expr) => {
        pub fn $name() {
            bits_body::<$n, $k>()
        }
    };
}

// GENERATED BY gen.py — BEGIN
//@ props=C01,C05,C08,C15,C20,C04 tier=quick unwind=4 stubs=greedy witness=rejected
msg_dec!(msg_dec_0, 0, 0);
//@ props=C02 tier=quick unwind=4 stubs=greedy witness=rejected
msg_dec_mon!(msg_dec_mon_0, 0, 0);
//@ props=C14 tier=quick unwind=4 stubs=greedy witness=
opts!(opts_0, 0, 0);
//@ props=C01,C05,C08,C15,C20,C04 tier=quick unwind=5 stubs=greedy witness=rejected
msg_dec!(msg_dec_1, 1, 0);
//@ props=C02 tier=quick unwind=5 stubs=greedy witness=rejected
msg_dec_mon!(msg_dec_mon_1, 1, 0);
//@ props=C14 tier=quick unwind=5 stubs=greedy witness=
opts!(opts_1, 1, 0);
//@ props=C01,C05,C08,C15,C20,C04 tier=quick unwind=6 stubs=greedy witness=rejected
msg_dec!(msg_dec_2, 2, 0);
//@ props=C02 tier=quick unwind=6 stubs=greedy witness=rejected
msg_dec_mon!(msg_dec_mon_2, 2, 0);
//@ props=C14 tier=quick unwind=6 stubs=greedy witness=
opts!(opts_2, 2, 0);
//@ props=C14 tier=quick unwind=6 stubs=greedy witness=
bits!(bits_2, 2, 0);
//@ props=C01,C05,C08,C15,C20,C04 tier=thorough unwind=7 stubs=greedy witness=rejected
msg_dec!(msg_dec_3, 3, 0);
//@ props=C02 tier=thorough unwind=7 stubs=greedy witness=rejected
msg_dec_mon!(msg_dec_mon_3, 3, 0);
//@ props=C14 tier=thorough unwind=7 stubs=greedy witness=
opts!(opts_3, 3, 0);
//@ props=C14 tier=thorough unwind=7 stubs=greedy witness=
bits!(bits_3, 3, 0);
//@ props=C01,C05,C08,C15,C20,C04 tier=thorough unwind=8 stubs=greedy witness=rejected
msg_dec!(msg_dec_4, 4, 0);
//@ props=C02 tier=thorough unwind=8 stubs=greedy witness=rejected
msg_dec_mon!(msg_dec_mon_4, 4, 0);
//@ props=C14 tier=thorough unwind=8 stubs=greedy witness=
opts!(opts_4, 4, 0);
//@ props=C14 tier=thorough unwind=8 stubs=greedy witness=
bits!(bits_4, 4, 0);
//@ props=C01,C05,C08,C15,C20,C04 tier=thorough unwind=9 stubs=greedy witness=rejected
msg_dec!(msg_dec_5, 5, 0);
//@ props=C02 tier=thorough unwind=9 stubs=greedy witness=rejected
msg_dec_mon!(msg_dec_mon_5, 5, 0);
//@ props=C14 tier=thorough unwind=9 stubs=greedy witness=
opts!(opts_5, 5, 0);
//@ props=C14 tier=thorough unwind=9 stubs=greedy witness=
bits!(bits_5, 5, 0);
//@ props=C01,C05,C08,C15,C20,C04 tier=quick unwind=10 stubs=greedy witness=rejected
msg_dec!(msg_dec_6, 6, 0);
//@ props=C02 tier=quick unwind=10 stubs=greedy witness=rejected
msg_dec_mon!(msg_dec_mon_6, 6, 0);
//@ props=C14 tier=quick unwind=10 stubs=greedy witness=
opts!(opts_6, 6, 0);
//@ props=C14 tier=quick unwind=10 stubs=greedy witness=
bits!(bits_6, 6, 0);
//@ props=C01,C05,C08,C15,C20,C04 tier=quick unwind=11 stubs=greedy witness=rejected,data_accepted
msg_dec!(msg_dec_7, 7, 0);
//@ props=C02 tier=quick unwind=11 stubs=greedy witness=rejected,data_accepted
msg_dec_mon!(msg_dec_mon_7, 7, 0);
//@ props=C14 tier=quick unwind=11 stubs=greedy witness=restricted,pass_and_ok
opts!(opts_7, 7, 0);
//@ props=C14 tier=quick unwind=11 stubs=greedy witness=flipped_and_ok
bits!(bits_7, 7, 0);
//@ props=C01,C05,C08,C15,C20,C04 tier=thorough unwind=12 stubs=greedy witness=rejected,data_accepted
msg_dec!(msg_dec_8, 8, 0);
//@ props=C02 tier=thorough unwind=12 stubs=greedy witness=rejected,data_accepted
msg_dec_mon!(msg_dec_mon_8, 8, 0);
//@ props=C14 tier=thorough unwind=12 stubs=greedy witness=restricted,pass_and_ok
opts!(opts_8, 8, 0);
//@ props=C14 tier=thorough unwind=12 stubs=greedy witness=flipped_and_ok
bits!(bits_8, 8, 0);
//@ props=C01,C05,C08,C15,C20,C04 tier=quick unwind=13 stubs=greedy witness=rejected,data_accepted
msg_dec!(msg_dec_9, 9, 0);
//@ props=C02 tier=quick unwind=13 stubs=greedy witness=rejected,data_accepted
msg_dec_mon!(msg_dec_mon_9, 9, 0);
//@ props=C14 tier=quick unwind=13 stubs=greedy witness=restricted,pass_and_ok
opts!(opts_9, 9, 0);
//@ props=C14 tier=quick unwind=13 stubs=greedy witness=flipped_and_ok
bits!(bits_9, 9, 0);
//@ props=C01,C05,C08,C15,C20,C04 tier=thorough unwind=14 stubs=greedy witness=rejected,data_accepted
msg_dec!(msg_dec_10, 10, 0);
//@ props=C02 tier=thorough unwind=14 stubs=greedy witness=rejected,data_accepted
msg_dec_mon!(msg_dec_mon_10, 10, 0);
//@ props=C14 tier=thorough unwind=14 stubs=greedy witness=restricted,pass_and_ok
opts!(opts_10, 10, 0);
//@ props=C14 tier=thorough unwind=14 stubs=greedy witness=flipped_and_ok
bits!(bits_10, 10, 0);
//@ props=C01,C05,C08,C15,C20,C04 tier=thorough unwind=15 stubs=greedy witness=rejected,data_accepted
msg_dec!(msg_dec_11, 11, 0);
//@ props=C02 tier=thorough unwind=15 stubs=greedy witness=rejected,data_accepted
msg_dec_mon!(msg_dec_mon_11, 11, 0);
//@ props=C14 tier=thorough unwind=15 stubs=greedy witness=restricted,pass_and_ok
opts!(opts_11, 11, 0);
//@ props=C14 tier=thorough unwind=15 stubs=greedy witness=flipped_and_ok
bits!(bits_11, 11, 0);
//@ props=C01,C05,C08,C15,C20,C04 tier=quick unwind=16 stubs=greedy witness=rejected,data_accepted,control_accepted
msg_dec!(msg_dec_12_k0, 12, 0);
//@ props=C02 tier=quick unwind=16 stubs=greedy witness=rejected,data_accepted,control_accepted
msg_dec_mon!(msg_dec_mon_12_k0, 12, 0);
//@ props=C14 tier=quick unwind=16 stubs=greedy witness=restricted,pass_and_ok
opts!(opts_12_k0, 12, 0);
//@ props=C14 tier=quick unwind=16 stubs=greedy witness=flipped_and_ok
bits!(bits_12_k0, 12, 0);
//@ props=C01,C05,C08,C15,C20,C04 tier=quick unwind=16 stubs=greedy witness=rejected,data_accepted,control_accepted
msg_dec!(msg_dec_12_k1, 12, 1);
//@ props=C02 tier=quick unwind=16 stubs=greedy witness=rejected,data_accepted,control_accepted
msg_dec_mon!(msg_dec_mon_12_k1, 12, 1);
//@ props=C14 tier=quick unwind=16 stubs=greedy witness=restricted,pass_and_ok
opts!(opts_12_k1, 12, 1);
//@ props=C14 tier=quick unwind=16 stubs=greedy witness=flipped_and_ok
bits!(bits_12_k1, 12, 1);
//@ props=C01,C05,C08,C15,C20,C04 tier=thorough unwind=16 stubs=greedy witness=rejected,data_accepted,control_accepted,errors_listed
msg_dec!(msg_dec_12_k2, 12, 2);
//@ props=C01,C05,C08,C15,C20,C04 tier=thorough unwind=16 stubs=greedy witness=rejected,data_accepted,control_accepted,errors_listed
msg_dec!(msg_dec_12_k3, 12, 3);
//@ props=C01,C05,C08,C15,C20,C04 tier=quick unwind=17 stubs=greedy witness=rejected,data_accepted,control_accepted
msg_dec!(msg_dec_13_k0, 13, 0);
//@ props=C02 tier=quick unwind=17 stubs=greedy witness=rejected,data_accepted,control_accepted
msg_dec_mon!(msg_dec_mon_13_k0, 13, 0);
//@ props=C14 tier=quick unwind=17 stubs=greedy witness=restricted,pass_and_ok
opts!(opts_13_k0, 13, 0);
//@ props=C14 tier=quick unwind=17 stubs=greedy witness=flipped_and_ok
bits!(bits_13_k0, 13, 0);
//@ props=C01,C05,C08,C15,C20,C04 tier=quick unwind=17 stubs=greedy witness=rejected,data_accepted,control_accepted
msg_dec!(msg_dec_13_k1, 13, 1);
//@ props=C02 tier=quick unwind=17 stubs=greedy witness=rejected,data_accepted,control_accepted
msg_dec_mon!(msg_dec_mon_13_k1, 13, 1);
//@ props=C14 tier=quick unwind=17 stubs=greedy witness=restricted,pass_and_ok
opts!(opts_13_k1, 13, 1);
//@ props=C14 tier=quick unwind=17 stubs=greedy witness=flipped_and_ok
bits!(bits_13_k1, 13, 1);
//@ props=C01,C05,C08,C15,C20,C04 tier=thorough unwind=17 stubs=greedy witness=rejected,data_accepted,control_accepted,errors_listed
msg_dec!(msg_dec_13_k2, 13, 2);
//@ props=C01,C05,C08,C15,C20,C04 tier=thorough unwind=17 stubs=greedy witness=rejected,data_accepted,control_accepted,errors_listed
msg_dec!(msg_dec_13_k3, 13, 3);
//@ props=C01,C05,C08,C15,C20,C04 tier=thorough unwind=18 stubs=greedy witness=rejected,data_accepted,control_accepted
msg_dec!(msg_dec_14_k0, 14, 0);
//@ props=C02 tier=thorough unwind=18 stubs=greedy witness=rejected,data_accepted,control_accepted
msg_dec_mon!(msg_dec_mon_14_k0, 14, 0);
//@ props=C14 tier=thorough unwind=18 stubs=greedy witness=restricted,pass_and_ok
opts!(opts_14_k0, 14, 0);
//@ props=C14 tier=thorough unwind=18 stubs=greedy witness=flipped_and_ok
bits!(bits_14_k0, 14, 0);
//@ props=C01,C05,C08,C15,C20,C04 tier=thorough unwind=18 stubs=greedy witness=rejected,data_accepted,control_accepted
msg_dec!(msg_dec_14_k1, 14, 1);
//@ props=C02 tier=thorough unwind=18 stubs=greedy witness=rejected,data_accepted,control_accepted
msg_dec_mon!(msg_dec_mon_14_k1, 14, 1);
//@ props=C14 tier=thorough unwind=18 stubs=greedy witness=restricted,pass_and_ok
opts!(opts_14_k1, 14, 1);
//@ props=C14 tier=thorough unwind=18 stubs=greedy witness=flipped_and_ok
bits!(bits_14_k1, 14, 1);
//@ props=C01,C05,C08,C15,C20,C04 tier=thorough unwind=18 stubs=greedy witness=rejected,data_accepted,control_accepted,errors_listed
msg_dec!(msg_dec_14_k2, 14, 2);
//@ props=C01,C05,C08,C15,C20,C04 tier=thorough unwind=18 stubs=greedy witness=rejected,data_accepted,control_accepted,errors_listed
msg_dec!(msg_dec_14_k3, 14, 3);
//@ props=C01,C05,C08,C15,C20,C04 tier=thorough unwind=19 stubs=greedy witness=rejected,data_accepted,control_accepted
msg_dec!(msg_dec_15_k0, 15, 0);
//@ props=C02 tier=thorough unwind=19 stubs=greedy witness=rejected,data_accepted,control_accepted
msg_dec_mon!(msg_dec_mon_15_k0, 15, 0);
//@ props=C14 tier=thorough unwind=19 stubs=greedy witness=restricted,pass_and_ok
opts!(opts_15_k0, 15, 0);
//@ props=C14 tier=thorough unwind=19 stubs=greedy witness=flipped_and_ok
bits!(bits_15_k0, 15, 0);
//@ props=C01,C05,C08,C15,C20,C04 tier=thorough unwind=19 stubs=greedy witness=rejected,data_accepted,control_accepted
msg_dec!(msg_dec_15_k1, 15, 1);
//@ props=C02 tier=thorough unwind=19 stubs=greedy witness=rejected,data_accepted,control_accepted
msg_dec_mon!(msg_dec_mon_15_k1, 15, 1);
//@ props=C14 tier=thorough unwind=19 stubs=greedy witness=restricted,pass_and_ok
opts!(opts_15_k1, 15, 1);
//@ props=C14 tier=thorough unwind=19 stubs=greedy witness=flipped_and_ok
bits!(bits_15_k1, 15, 1);
//@ props=C01,C05,C08,C15,C20,C04 tier=thorough unwind=19 stubs=greedy witness=rejected,data_accepted,control_accepted,errors_listed
msg_dec!(msg_dec_15_k2, 15, 2);
//@ props=C01,C05,C08,C15,C20,C04 tier=thorough unwind=19 stubs=greedy witness=rejected,data_accepted,control_accepted,errors_listed
msg_dec!(msg_dec_15_k3, 15, 3);
//@ props=C01,C05,C08,C15,C20,C04 tier=quick unwind=20 stubs=greedy witness=rejected,data_accepted,control_accepted
msg_dec!(msg_dec_16_k0, 16, 0);
//@ props=C02 tier=quick unwind=20 stubs=greedy witness=rejected,data_accepted,control_accepted
msg_dec_mon!(msg_dec_mon_16_k0, 16, 0);
//@ props=C14 tier=quick unwind=20 stubs=greedy witness=restricted,pass_and_ok
opts!(opts_16_k0, 16, 0);
//@ props=C14 tier=quick unwind=20 stubs=greedy witness=flipped_and_ok
bits!(bits_16_k0, 16, 0);
//@ props=C01,C05,C08,C15,C20,C04 tier=quick unwind=20 stubs=greedy witness=rejected,data_accepted,control_accepted
msg_dec!(msg_dec_16_k1, 16, 1);
//@ props=C02 tier=quick unwind=20 stubs=greedy witness=rejected,data_accepted,control_accepted
msg_dec_mon!(msg_dec_mon_16_k1, 16, 1);
//@ props=C14 tier=quick unwind=20 stubs=greedy witness=restricted,pass_and_ok
opts!(opts_16_k1, 16, 1);
//@ props=C14 tier=quick unwind=20 stubs=greedy witness=flipped_and_ok
bits!(bits_16_k1, 16, 1);
//@ props=C01,C05,C08,C15,C20,C04 tier=thorough unwind=20 stubs=greedy witness=rejected,data_accepted,control_accepted,errors_listed
msg_dec!(msg_dec_16_k2, 16, 2);
//@ props=C01,C05,C08,C15,C20,C04 tier=thorough unwind=20 stubs=greedy witness=rejected,data_accepted,control_accepted,errors_listed
msg_dec!(msg_dec_16_k3, 16, 3);
//@ props=C01,C05,C08,C15,C20,C04 tier=thorough unwind=21 stubs=greedy witness=rejected,data_accepted,control_accepted
msg_dec!(msg_dec_17_k0, 17, 0);
//@ props=C02 tier=thorough unwind=21 stubs=greedy witness=rejected,data_accepted,control_accepted
msg_dec_mon!(msg_dec_mon_17_k0, 17, 0);
//@ props=C14 tier=thorough unwind=21 stubs=greedy witness=restricted,pass_and_ok
opts!(opts_17_k0, 17, 0);
//@ props=C14 tier=thorough unwind=21 stubs=greedy witness=flipped_and_ok
bits!(bits_17_k0, 17, 0);
//@ props=C01,C05,C08,C15,C20,C04 tier=thorough unwind=21 stubs=greedy witness=rejected,data_accepted,control_accepted
msg_dec!(msg_dec_17_k1, 17, 1);
//@ props=C02 tier=thorough unwind=21 stubs=greedy witness=rejected,data_accepted,control_accepted
msg_dec_mon!(msg_dec_mon_17_k1, 17, 1);
//@ props=C14 tier=thorough unwind=21 stubs=greedy witness=restricted,pass_and_ok
opts!(opts_17_k1, 17, 1);
//@ props=C14 tier=thorough unwind=21 stubs=greedy witness=flipped_and_ok
bits!(bits_17_k1, 17, 1);
//@ props=C01,C05,C08,C15,C20,C04 tier=thorough unwind=21 stubs=greedy witness=rejected,data_accepted,control_accepted,errors_listed
msg_dec!(msg_dec_17_k2, 17, 2);
//@ props=C01,C05,C08,C15,C20,C04 tier=thorough unwind=21 stubs=greedy witness=rejected,data_accepted,control_accepted,errors_listed
msg_dec!(msg_dec_17_k3, 17, 3);
//@ props=C01,C05,C08,C15,C20,C04 tier=thorough unwind=22 stubs=greedy witness=rejected,data_accepted,control_accepted
msg_dec!(msg_dec_18_k0, 18, 0);
//@ props=C02 tier=thorough unwind=22 stubs=greedy witness=rejected,data_accepted,control_accepted
msg_dec_mon!(msg_dec_mon_18_k0, 18, 0);
//@ props=C14 tier=thorough unwind=22 stubs=greedy witness=restricted,pass_and_ok
opts!(opts_18_k0, 18, 0);
//@ props=C14 tier=thorough unwind=22 stubs=greedy witness=flipped_and_ok
bits!(bits_18_k0, 18, 0);
//@ props=C01,C05,C08,C15,C20,C04 tier=thorough unwind=22 stubs=greedy witness=rejected,data_accepted,control_accepted
msg_dec!(msg_dec_18_k1, 18, 1);
//@ props=C02 tier=thorough unwind=22 stubs=greedy witness=rejected,data_accepted,control_accepted
msg_dec_mon!(msg_dec_mon_18_k1, 18, 1);
//@ props=C14 tier=thorough unwind=22 stubs=greedy witness=restricted,pass_and_ok
opts!(opts_18_k1, 18, 1);
//@ props=C14 tier=thorough unwind=22 stubs=greedy witness=flipped_and_ok
bits!(bits_18_k1, 18, 1);
//@ props=C01,C05,C08,C15,C20,C04 tier=thorough unwind=22 stubs=greedy witness=rejected,data_accepted,control_accepted,errors_listed
msg_dec!(msg_dec_18_k2, 18, 2);
//@ props=C01,C05,C08,C15,C20,C04 tier=thorough unwind=22 stubs=greedy witness=rejected,data_accepted,control_accepted,errors_listed
msg_dec!(msg_dec_18_k3, 18, 3);
//@ props=C01,C05,C08,C15,C20,C04 tier=thorough unwind=23 stubs=greedy witness=rejected,data_accepted,control_accepted
msg_dec!(msg_dec_19_k0, 19, 0);
//@ props=C02 tier=thorough unwind=23 stubs=greedy witness=rejected,data_accepted,control_accepted
msg_dec_mon!(msg_dec_mon_19_k0, 19, 0);
//@ props=C14 tier=thorough unwind=23 stubs=greedy witness=restricted,pass_and_ok
opts!(opts_19_k0, 19, 0);
//@ props=C14 tier=thorough unwind=23 stubs=greedy witness=flipped_and_ok
bits!(bits_19_k0, 19, 0);
//@ props=C01,C05,C08,C15,C20,C04 tier=thorough unwind=23 stubs=greedy witness=rejected,data_accepted,control_accepted
msg_dec!(msg_dec_19_k1, 19, 1);
//@ props=C02 tier=thorough unwind=23 stubs=greedy witness=rejected,data_accepted,control_accepted
msg_dec_mon!(msg_dec_mon_19_k1, 19, 1);
//@ props=C14 tier=thorough unwind=23 stubs=greedy witness=restricted,pass_and_ok
opts!(opts_19_k1, 19, 1);
//@ props=C14 tier=thorough unwind=23 stubs=greedy witness=flipped_and_ok
bits!(bits_19_k1, 19, 1);
//@ props=C01,C05,C08,C15,C20,C04 tier=thorough unwind=23 stubs=greedy witness=rejected,data_accepted,control_accepted,errors_listed
msg_dec!(msg_dec_19_k2, 19, 2);
//@ props=C01,C05,C08,C15,C20,C04 tier=thorough unwind=23 stubs=greedy witness=rejected,data_accepted,control_accepted,errors_listed
msg_dec!(msg_dec_19_k3, 19, 3);
//@ props=C01,C05,C08,C15,C20,C04 tier=thorough unwind=24 stubs=greedy witness=rejected,data_accepted,control_accepted
msg_dec!(msg_dec_20_k0, 20, 0);
//@ props=C02 tier=thorough unwind=24 stubs=greedy witness=rejected,data_accepted,control_accepted
msg_dec_mon!(msg_dec_mon_20_k0, 20, 0);
//@ props=C14 tier=thorough unwind=24 stubs=greedy witness=restricted,pass_and_ok
opts!(opts_20_k0, 20, 0);
//@ props=C14 tier=thorough unwind=24 stubs=greedy witness=flipped_and_ok
bits!(bits_20_k0, 20, 0);
//@ props=C01,C05,C08,C15,C20,C04 tier=thorough unwind=24 stubs=greedy witness=rejected,data_accepted,control_accepted
msg_dec!(msg_dec_20_k1, 20, 1);
//@ props=C02 tier=thorough unwind=24 stubs=greedy witness=rejected,data_accepted,control_accepted
msg_dec_mon!(msg_dec_mon_20_k1, 20, 1);
//@ props=C14 tier=thorough unwind=24 stubs=greedy witness=restricted,pass_and_ok
opts!(opts_20_k1, 20, 1);
//@ props=C14 tier=thorough unwind=24 stubs=greedy witness=flipped_and_ok
bits!(bits_20_k1, 20, 1);
//@ props=C01,C05,C08,C15,C20,C04 tier=thorough unwind=24 stubs=greedy witness=rejected,data_accepted,control_accepted,errors_listed
msg_dec!(msg_dec_20_k2, 20, 2);
//@ props=C01,C05,C08,C15,C20,C04 tier=thorough unwind=24 stubs=greedy witness=rejected,data_accepted,control_accepted,errors_listed
msg_dec!(msg_dec_20_k3, 20, 3);

pub const HARNESSES: &[(&str, fn())] = &[
    ("msg_dec_0", msg_dec_0),
    ("msg_dec_mon_0", msg_dec_mon_0),
    ("opts_0", opts_0),
    ("msg_dec_1", msg_dec_1),
    ("msg_dec_mon_1", msg_dec_mon_1),
    ("opts_1", opts_1),
    ("msg_dec_2", msg_dec_2),
    ("msg_dec_mon_2", msg_dec_mon_2),
    ("opts_2", opts_2),
    ("bits_2", bits_2),
    ("msg_dec_3", msg_dec_3),
    ("msg_dec_mon_3", msg_dec_mon_3),
    ("opts_3", opts_3),
    ("bits_3", bits_3),
    ("msg_dec_4", msg_dec_4),
    ("msg_dec_mon_4", msg_dec_mon_4),
    ("opts_4", opts_4),
    ("bits_4", bits_4),
    ("msg_dec_5", msg_dec_5),
    ("msg_dec_mon_5", msg_dec_mon_5),
    ("opts_5", opts_5),
    ("bits_5", bits_5),
    ("msg_dec_6", msg_dec_6),
    ("msg_dec_mon_6", msg_dec_mon_6),
    ("opts_6", opts_6),
    ("bits_6", bits_6),
    ("msg_dec_7", msg_dec_7),
    ("msg_dec_mon_7", msg_dec_mon_7),
    ("opts_7", opts_7),
    ("bits_7", bits_7),
    ("msg_dec_8", msg_dec_8),
    ("msg_dec_mon_8", msg_dec_mon_8),
    ("opts_8", opts_8),
    ("bits_8", bits_8),
    ("msg_dec_9", msg_dec_9),
    ("msg_dec_mon_9", msg_dec_mon_9),
    ("opts_9", opts_9),
    ("bits_9", bits_9),
    ("msg_dec_10", msg_dec_10),
    ("msg_dec_mon_10", msg_dec_mon_10),
    ("opts_10", opts_10),
    ("bits_10", bits_10),
    ("msg_dec_11", msg_dec_11),
    ("msg_dec_mon_11", msg_dec_mon_11),
    ("opts_11", opts_11),
    ("bits_11", bits_11),
    ("msg_dec_12_k0", msg_dec_12_k0),
    ("msg_dec_mon_12_k0", msg_dec_mon_12_k0),
    ("opts_12_k0", opts_12_k0),
    ("bits_12_k0", bits_12_k0),
    ("msg_dec_12_k1", msg_dec_12_k1),
    ("msg_dec_mon_12_k1", msg_dec_mon_12_k1),
    ("opts_12_k1", opts_12_k1),
    ("bits_12_k1", bits_12_k1),
    ("msg_dec_12_k2", msg_dec_12_k2),
    ("msg_dec_12_k3", msg_dec_12_k3),
    ("msg_dec_13_k0", msg_dec_13_k0),
    ("msg_dec_mon_13_k0", msg_dec_mon_13_k0),
    ("opts_13_k0", opts_13_k0),
    ("bits_13_k0", bits_13_k0),
    ("msg_dec_13_k1", msg_dec_13_k1),
    ("msg_dec_mon_13_k1", msg_dec_mon_13_k1),
    ("opts_13_k1", opts_13_k1),
    ("bits_13_k1", bits_13_k1),
    ("msg_dec_13_k2", msg_dec_13_k2),
    ("msg_dec_13_k3", msg_dec_13_k3),
    ("msg_dec_14_k0", msg_dec_14_k0),
    ("msg_dec_mon_14_k0", msg_dec_mon_14_k0),
    ("opts_14_k0", opts_14_k0),
    ("bits_14_k0", bits_14_k0),
    ("msg_dec_14_k1", msg_dec_14_k1),
    ("msg_dec_mon_14_k1", msg_dec_mon_14_k1),
    ("opts_14_k1", opts_14_k1),
    ("bits_14_k1", bits_14_k1),
    ("msg_dec_14_k2", msg_dec_14_k2),
    ("msg_dec_14_k3", msg_dec_14_k3),
    ("msg_dec_15_k0", msg_dec_15_k0),
    ("msg_dec_mon_15_k0", msg_dec_mon_15_k0),
    ("opts_15_k0", opts_15_k0),
    ("bits_15_k0", bits_15_k0),
    ("msg_dec_15_k1", msg_dec_15_k1),
    ("msg_dec_mon_15_k1", msg_dec_mon_15_k1),
    ("opts_15_k1", opts_15_k1),
    ("bits_15_k1", bits_15_k1),
    ("msg_dec_15_k2", msg_dec_15_k2),
    ("msg_dec_15_k3", msg_dec_15_k3),
    ("msg_dec_16_k0", msg_dec_16_k0),
    ("msg_dec_mon_16_k0", msg_dec_mon_16_k0),
    ("opts_16_k0", opts_16_k0),
    ("bits_16_k0", bits_16_k0),
    ("msg_dec_16_k1", msg_dec_16_k1),
    ("msg_dec_mon_16_k1", msg_dec_mon_16_k1),
    ("opts_16_k1", opts_16_k1),
    ("bits_16_k1", bits_16_k1),
    ("msg_dec_16_k2", msg_dec_16_k2),
    ("msg_dec_16_k3", msg_dec_16_k3),
    ("msg_dec_17_k0", msg_dec_17_k0),
    ("msg_dec_mon_17_k0", msg_dec_mon_17_k0),
    ("opts_17_k0", opts_17_k0),
    ("bits_17_k0", bits_17_k0),
    ("msg_dec_17_k1", msg_dec_17_k1),
    ("msg_dec_mon_17_k1", msg_dec_mon_17_k1),
    ("opts_17_k1", opts_17_k1),
    ("bits_17_k1", bits_17_k1),
    ("msg_dec_17_k2", msg_dec_17_k2),
    ("msg_dec_17_k3", msg_dec_17_k3),
    ("msg_dec_18_k0", msg_dec_18_k0),
    ("msg_dec_mon_18_k0", msg_dec_mon_18_k0),
    ("opts_18_k0", opts_18_k0),
    ("bits_18_k0", bits_18_k0),
    ("msg_dec_18_k1", msg_dec_18_k1),
    ("msg_dec_mon_18_k1", msg_dec_mon_18_k1),
    ("opts_18_k1", opts_18_k1),
    ("bits_18_k1", bits_18_k1),
    ("msg_dec_18_k2", msg_dec_18_k2),
    ("msg_dec_18_k3", msg_dec_18_k3),
    ("msg_dec_19_k0", msg_dec_19_k0),
    ("msg_dec_mon_19_k0", msg_dec_mon_19_k0),
    ("opts_19_k0", opts_19_k0),
    ("bits_19_k0", bits_19_k0),
    ("msg_dec_19_k1", msg_dec_19_k1),
    ("msg_dec_mon_19_k1", msg_dec_mon_19_k1),
    ("opts_19_k1", opts_19_k1),
    ("bits_19_k1", bits_19_k1),
    ("msg_dec_19_k2", msg_dec_19_k2),
    ("msg_dec_19_k3", msg_dec_19_k3),
    ("msg_dec_20_k0", msg_dec_20_k0),
    ("msg_dec_mon_20_k0", msg_dec_mon_20_k0),
    ("opts_20_k0", opts_20_k0),
    ("bits_20_k0", bits_20_k0),
    ("msg_dec_20_k1", msg_dec_20_k1),
    ("msg_dec_mon_20_k1", msg_dec_mon_20_k1),
    ("opts_20_k1", opts_20_k1),
    ("bits_20_k1", bits_20_k1),
    ("msg_dec_20_k2", msg_dec_20_k2),
    ("msg_dec_20_k3", msg_dec_20_k3),
];
// GENERATED BY gen.py — END
