//! L4 / L5: `Message::try_read[_validate]` on n fully symbolic octets with
//! symbolic validation options.  The AVP region of control messages is handed
//! to `AVP::try_read_greedy`, which is replaced here by `abs_greedy` (an
//! arbitrary list of at most one result; DESIGN.md §3.2) — natively (replay)
//! the real one runs and the expectation is computed by the full
//! specification instead.

#![allow(static_mut_refs)]

use crate::model::MonitorReader;
use crate::spec::avp as sa;
use crate::spec::msg as sm;
use crate::spec::{be16, bytes_eq};
#[allow(unused_imports)]
use crate::stubs;
use crate::{check, nd, witness};
use rl2tp::common::{DecodeError as DE, Reader, SliceReader};
use rl2tp::{DataMessage, Message, ValidateReserved, ValidateUnused, ValidateVersion, ValidationOptions};

pub type Res<'a> = Result<Message<&'a [u8]>, Vec<DE>>;

pub fn sym_opts() -> (sm::Opts, ValidationOptions) {
    let o = sm::Opts {
        reserved: nd::any(),
        version: nd::any(),
        unused: nd::any(),
    };
    (o, real_opts(o))
}

pub fn real_opts(o: sm::Opts) -> ValidationOptions {
    ValidationOptions {
        reserved: if o.reserved { ValidateReserved::Yes } else { ValidateReserved::No },
        version: if o.version { ValidateVersion::Yes } else { ValidateVersion::No },
        unused: if o.unused { ValidateUnused::Yes } else { ValidateUnused::No },
    }
}

pub const NONE: sm::Opts = sm::Opts {
    reserved: false,
    version: false,
    unused: false,
};

fn data_matches(d: &DataMessage<&[u8]>, s: &sm::SpecData, b: &[u8]) -> bool {
    d.is_prioritized == s.priority
        && d.length == s.length
        && d.tunnel_id == s.tunnel_id
        && d.session_id == s.session_id
        && d.ns_nr == s.ns_nr
        && d.offset.is_none()
        && bytes_eq(d.data, &b[s.start..s.end])
}

/// What the specification says about the AVP region of a control message.
pub struct RegionVerdict {
    pub accept: bool,
    pub n_records: usize,
    pub n_errors: usize,
    pub first_is_message_type: bool,
}

/// Full-specification walk of an AVP region (used natively, and by the
/// skeleton harnesses): every record decoded by `spec_leaf`.
pub fn spec_region(b: &[u8]) -> RegionVerdict {
    let mut i = 0;
    let mut n_records = 0;
    let mut n_errors = 0;
    let mut first_mt = false;
    loop {
        let (k, next) = sa::spec_record_at(b, i);
        let ok = match k {
            sa::RecKind::End => break,
            sa::RecKind::BadLength => false,
            sa::RecKind::Vendor(_) => false,
            sa::RecKind::Hidden { .. } => true,
            sa::RecKind::Plain { t, start, end } => {
                let l = sa::spec_leaf(t, &b[start..end]);
                if n_records == 0 && l.ok && t == 0 {
                    first_mt = true;
                }
                l.ok
            }
        };
        n_records += 1;
        if !ok {
            n_errors += 1;
        }
        if matches!(k, sa::RecKind::BadLength) {
            break;
        }
        i = next;
    }
    RegionVerdict {
        accept: n_records == 0 || (first_mt && n_errors == 0),
        n_records,
        n_errors,
        first_is_message_type: first_mt,
    }
}

/// Compare one decode result with the specification.  `remaining` is what the
/// reader reports after the call.
pub fn check_against_spec(b: &[u8], o: sm::Opts, r: &Res, remaining: usize) {
    let n = b.len();
    if let Err(e) = r {
        check!(!e.is_empty(), "C01,C15: a rejected message comes with a non-empty error list");
    }
    if n < 2 {
        check!(r.is_err(), "C05: fewer than two octets cannot hold the flag word");
        return;
    }
    let w = be16(b, 0);
    let early = sm::spec_early(w, o);
    if early != sm::Early::Pass {
        check!(r.is_err(), "C05,C14: an enabled validation option rejects the flag word");
        if let (sm::Early::BadVersion(v), 1, Err(e)) = (early, sm::early_fault_count(w, o), r) {
            check!(e.len() == 1 && e[0] == DE::InvalidVersion(v), "C20: a wrong version nibble is reported as InvalidVersion(nibble)");
        }
        return;
    }
    let f = sm::spec_flags(w);
    if !f.control {
        match sm::spec_data(b) {
            Ok(s) => {
                match r {
                    Ok(Message::Data(d)) => {
                        check!(data_matches(d, &s, b), "C05,C04,C14: decoded data message equals the specified one field for field (ids, Ns/Nr, priority, length, payload, no offset)");
                    }
                    _ => check!(false, "C05,C14: the decoder accepts the data message the specification accepts"),
                }
                let consumed = match s.length {
                    Some(l) => l as usize,
                    None => n,
                };
                check!(remaining == n - consumed, "C08: decoding a data message consumes exactly the declared length (everything when no length field)");
            }
            Err(sm::DataErr::Offset(off)) => match r {
                Err(e) => check!(e.len() == 1 && e[0] == DE::InvalidOffset(off), "C20: an offset size larger than what remains is reported as InvalidOffset(size)"),
                Ok(_) => check!(false, "C05: a data message whose offset pad exceeds the input is rejected"),
            },
            Err(sm::DataErr::Other) => check!(r.is_err(), "C05,C14: the decoder rejects the data message the specification rejects"),
        }
        witness!(r.is_ok(), "data_accepted");
        return;
    }
    // control message
    let h = match sm::spec_ctrl_header(b) {
        Err(()) => {
            check!(r.is_err(), "C05,C14: the decoder rejects the control header the specification rejects");
            return;
        }
        Ok(h) => h,
    };
    let region = &b[12..h.length as usize];
    #[cfg(kani)]
    {
        // `AVP::try_read_greedy` is abstracted to "returns the empty list"
        // (stub greedy0); the AVP region's content is therefore irrelevant here
        let _ = region;
        match r {
            Ok(Message::Control(c)) => {
                check!(
                    c.length == h.length && c.tunnel_id == h.tunnel_id && c.session_id == h.session_id && c.ns == h.ns && c.nr == h.nr,
                    "C05,C14: control header fields equal the specified ones (Length, Tunnel ID, Session ID, Ns, Nr in RFC 2661 order)"
                );
                check!(c.avps.len() == 0, "C05,C15: a control message without AVPs carries an empty AVP list");
                check!(remaining == n - h.length as usize, "C08: decoding a control message consumes exactly Length octets");
            }
            Ok(Message::Data(_)) => check!(false, "C05: the T bit selects the control decoder"),
            Err(_) => check!(false, "C05,C14,C15: a control message with an acceptable header and no AVP (ZLB) is accepted"),
        }
    }
    #[cfg(not(kani))]
    {
        let v = spec_region(region);
        match r {
            Ok(Message::Control(c)) => {
                check!(v.accept, "C05,C15: a control message is accepted only if every AVP decodes and the first one is a Message Type");
                check!(
                    c.length == h.length && c.tunnel_id == h.tunnel_id && c.session_id == h.session_id && c.ns == h.ns && c.nr == h.nr,
                    "C05: control header fields equal the specified ones (Length, Tunnel ID, Session ID, Ns, Nr in RFC 2661 order)"
                );
                check!(c.avps.len() == v.n_records, "C05,C15: an accepted control message carries one AVP per record");
                check!(remaining == n - h.length as usize, "C08: decoding a control message consumes exactly Length octets");
            }
            Ok(Message::Data(_)) => check!(false, "C05: the T bit selects the control decoder"),
            Err(e) => {
                check!(!v.accept, "C05,C15: a control message whose AVPs all decode (first one a Message Type, or none at all) is accepted");
                if v.first_is_message_type {
                    check!(e.len() == v.n_errors, "C15: exactly one error per undecodable AVP record");
                }
            }
        }
    }
    witness!(r.is_ok(), "control_accepted");
}

/// L5 body: one decode of N symbolic octets under symbolic options vs the
/// specification, with the `SliceReader`.
pub fn msg_dec_body<const N: usize>() {
    crate::stubs::touch();
    let b: [u8; N] = nd::any();
    let (o, ro) = sym_opts();
    let mut r = SliceReader::from(&b);
    let res: Res = Message::try_read_validate(&mut r, ro);
    check_against_spec(&b, o, &res, r.len());
    witness!(res.is_err(), "rejected");
    std::mem::forget(res);
}

/// Same with the contract-monitoring reader (C02).
pub fn msg_dec_mon_body<const N: usize>() {
    crate::stubs::touch();
    let b: [u8; N] = nd::any();
    let (o, ro) = sym_opts();
    let mut r = MonitorReader::from(&b);
    let res: Res = Message::try_read_validate(&mut r, ro);
    check_against_spec(&b, o, &res, r.len());
    witness!(res.is_err(), "rejected");
    std::mem::forget(res);
}

/// C14: the default entry point behaves as version checking alone.
pub fn msg_default_body<const N: usize>() {
    crate::stubs::touch();
    let b: [u8; N] = nd::any();
    let mut r = SliceReader::from(&b);
    let res: Res = Message::try_read(&mut r);
    let o = sm::Opts {
        reserved: false,
        version: true,
        unused: false,
    };
    check_against_spec(&b, o, &res, r.len());
    witness!(res.is_err(), "rejected");
    std::mem::forget(res);
}

macro_rules! msg_dec {
    ($name:ident, $n:expr) => {
        pub fn $name() {
            msg_dec_body::<$n>()
        }
    };
}
macro_rules! msg_dec_mon {
    ($name:ident, $n:expr) => {
        pub fn $name() {
            msg_dec_mon_body::<$n>()
        }
    };
}
macro_rules! msg_default {
    ($name:ident, $n:expr) => {
        pub fn $name() {
            msg_default_body::<$n>()
        }
    };
}

// GENERATED BY gen.py — BEGIN
//@ props=C01,C05,C08,C14,C15,C20,C04 tier=quick unwind=10 stubs=greedy0 witness=rejected
msg_dec!(msg_dec_0, 0);
//@ props=C02 tier=quick unwind=10 stubs=greedy0 witness=rejected
msg_dec_mon!(msg_dec_mon_0, 0);
//@ props=C14 tier=quick unwind=10 stubs=greedy0 witness=rejected
msg_default!(msg_default_0, 0);
//@ props=C01,C05,C08,C14,C15,C20,C04 tier=quick unwind=10 stubs=greedy0 witness=rejected
msg_dec!(msg_dec_1, 1);
//@ props=C02 tier=quick unwind=10 stubs=greedy0 witness=rejected
msg_dec_mon!(msg_dec_mon_1, 1);
//@ props=C14 tier=quick unwind=10 stubs=greedy0 witness=rejected
msg_default!(msg_default_1, 1);
//@ props=C01,C05,C08,C14,C15,C20,C04 tier=quick unwind=10 stubs=greedy0 witness=rejected
msg_dec!(msg_dec_2, 2);
//@ props=C02 tier=quick unwind=10 stubs=greedy0 witness=rejected
msg_dec_mon!(msg_dec_mon_2, 2);
//@ props=C14 tier=quick unwind=10 stubs=greedy0 witness=rejected
msg_default!(msg_default_2, 2);
//@ props=C01,C05,C08,C14,C15,C20,C04 tier=thorough unwind=10 stubs=greedy0 witness=rejected
msg_dec!(msg_dec_3, 3);
//@ props=C02 tier=thorough unwind=10 stubs=greedy0 witness=rejected
msg_dec_mon!(msg_dec_mon_3, 3);
//@ props=C14 tier=thorough unwind=10 stubs=greedy0 witness=rejected
msg_default!(msg_default_3, 3);
//@ props=C01,C05,C08,C14,C15,C20,C04 tier=thorough unwind=10 stubs=greedy0 witness=rejected
msg_dec!(msg_dec_4, 4);
//@ props=C02 tier=thorough unwind=10 stubs=greedy0 witness=rejected
msg_dec_mon!(msg_dec_mon_4, 4);
//@ props=C14 tier=thorough unwind=10 stubs=greedy0 witness=rejected
msg_default!(msg_default_4, 4);
//@ props=C01,C05,C08,C14,C15,C20,C04 tier=thorough unwind=10 stubs=greedy0 witness=rejected
msg_dec!(msg_dec_5, 5);
//@ props=C02 tier=thorough unwind=10 stubs=greedy0 witness=rejected
msg_dec_mon!(msg_dec_mon_5, 5);
//@ props=C14 tier=thorough unwind=10 stubs=greedy0 witness=rejected
msg_default!(msg_default_5, 5);
//@ props=C01,C05,C08,C14,C15,C20,C04 tier=quick unwind=10 stubs=greedy0 witness=rejected
msg_dec!(msg_dec_6, 6);
//@ props=C02 tier=quick unwind=10 stubs=greedy0 witness=rejected
msg_dec_mon!(msg_dec_mon_6, 6);
//@ props=C14 tier=quick unwind=10 stubs=greedy0 witness=rejected
msg_default!(msg_default_6, 6);
//@ props=C01,C05,C08,C14,C15,C20,C04 tier=quick unwind=11 stubs=greedy0 witness=rejected,data_accepted
msg_dec!(msg_dec_7, 7);
//@ props=C02 tier=quick unwind=11 stubs=greedy0 witness=rejected,data_accepted
msg_dec_mon!(msg_dec_mon_7, 7);
//@ props=C14 tier=quick unwind=11 stubs=greedy0 witness=rejected,data_accepted
msg_default!(msg_default_7, 7);
//@ props=C01,C05,C08,C14,C15,C20,C04 tier=thorough unwind=12 stubs=greedy0 witness=rejected,data_accepted
msg_dec!(msg_dec_8, 8);
//@ props=C02 tier=thorough unwind=12 stubs=greedy0 witness=rejected,data_accepted
msg_dec_mon!(msg_dec_mon_8, 8);
//@ props=C14 tier=thorough unwind=12 stubs=greedy0 witness=rejected,data_accepted
msg_default!(msg_default_8, 8);
//@ props=C01,C05,C08,C14,C15,C20,C04 tier=quick unwind=13 stubs=greedy0 witness=rejected,data_accepted
msg_dec!(msg_dec_9, 9);
//@ props=C02 tier=quick unwind=13 stubs=greedy0 witness=rejected,data_accepted
msg_dec_mon!(msg_dec_mon_9, 9);
//@ props=C14 tier=quick unwind=13 stubs=greedy0 witness=rejected,data_accepted
msg_default!(msg_default_9, 9);
//@ props=C01,C05,C08,C14,C15,C20,C04 tier=thorough unwind=14 stubs=greedy0 witness=rejected,data_accepted
msg_dec!(msg_dec_10, 10);
//@ props=C02 tier=thorough unwind=14 stubs=greedy0 witness=rejected,data_accepted
msg_dec_mon!(msg_dec_mon_10, 10);
//@ props=C14 tier=thorough unwind=14 stubs=greedy0 witness=rejected,data_accepted
msg_default!(msg_default_10, 10);
//@ props=C01,C05,C08,C14,C15,C20,C04 tier=thorough unwind=15 stubs=greedy0 witness=rejected,data_accepted
msg_dec!(msg_dec_11, 11);
//@ props=C02 tier=thorough unwind=15 stubs=greedy0 witness=rejected,data_accepted
msg_dec_mon!(msg_dec_mon_11, 11);
//@ props=C14 tier=thorough unwind=15 stubs=greedy0 witness=rejected,data_accepted
msg_default!(msg_default_11, 11);
//@ props=C01,C05,C08,C14,C15,C20,C04 tier=quick unwind=16 stubs=greedy0 witness=rejected,data_accepted,control_accepted
msg_dec!(msg_dec_12, 12);
//@ props=C02 tier=quick unwind=16 stubs=greedy0 witness=rejected,data_accepted,control_accepted
msg_dec_mon!(msg_dec_mon_12, 12);
//@ props=C14 tier=quick unwind=16 stubs=greedy0 witness=rejected,data_accepted,control_accepted
msg_default!(msg_default_12, 12);
//@ props=C01,C05,C08,C14,C15,C20,C04 tier=quick unwind=17 stubs=greedy0 witness=rejected,data_accepted,control_accepted
msg_dec!(msg_dec_13, 13);
//@ props=C02 tier=quick unwind=17 stubs=greedy0 witness=rejected,data_accepted,control_accepted
msg_dec_mon!(msg_dec_mon_13, 13);
//@ props=C14 tier=quick unwind=17 stubs=greedy0 witness=rejected,data_accepted,control_accepted
msg_default!(msg_default_13, 13);
//@ props=C01,C05,C08,C14,C15,C20,C04 tier=thorough unwind=18 stubs=greedy0 witness=rejected,data_accepted,control_accepted
msg_dec!(msg_dec_14, 14);
//@ props=C02 tier=thorough unwind=18 stubs=greedy0 witness=rejected,data_accepted,control_accepted
msg_dec_mon!(msg_dec_mon_14, 14);
//@ props=C14 tier=thorough unwind=18 stubs=greedy0 witness=rejected,data_accepted,control_accepted
msg_default!(msg_default_14, 14);
//@ props=C01,C05,C08,C14,C15,C20,C04 tier=thorough unwind=19 stubs=greedy0 witness=rejected,data_accepted,control_accepted
msg_dec!(msg_dec_15, 15);
//@ props=C02 tier=thorough unwind=19 stubs=greedy0 witness=rejected,data_accepted,control_accepted
msg_dec_mon!(msg_dec_mon_15, 15);
//@ props=C14 tier=thorough unwind=19 stubs=greedy0 witness=rejected,data_accepted,control_accepted
msg_default!(msg_default_15, 15);
//@ props=C01,C05,C08,C14,C15,C20,C04 tier=quick unwind=20 stubs=greedy0 witness=rejected,data_accepted,control_accepted
msg_dec!(msg_dec_16, 16);
//@ props=C02 tier=quick unwind=20 stubs=greedy0 witness=rejected,data_accepted,control_accepted
msg_dec_mon!(msg_dec_mon_16, 16);
//@ props=C14 tier=quick unwind=20 stubs=greedy0 witness=rejected,data_accepted,control_accepted
msg_default!(msg_default_16, 16);
//@ props=C01,C05,C08,C14,C15,C20,C04 tier=thorough unwind=21 stubs=greedy0 witness=rejected,data_accepted,control_accepted
msg_dec!(msg_dec_17, 17);
//@ props=C02 tier=thorough unwind=21 stubs=greedy0 witness=rejected,data_accepted,control_accepted
msg_dec_mon!(msg_dec_mon_17, 17);
//@ props=C14 tier=thorough unwind=21 stubs=greedy0 witness=rejected,data_accepted,control_accepted
msg_default!(msg_default_17, 17);
//@ props=C01,C05,C08,C14,C15,C20,C04 tier=thorough unwind=22 stubs=greedy0 witness=rejected,data_accepted,control_accepted
msg_dec!(msg_dec_18, 18);
//@ props=C02 tier=thorough unwind=22 stubs=greedy0 witness=rejected,data_accepted,control_accepted
msg_dec_mon!(msg_dec_mon_18, 18);
//@ props=C14 tier=thorough unwind=22 stubs=greedy0 witness=rejected,data_accepted,control_accepted
msg_default!(msg_default_18, 18);
//@ props=C01,C05,C08,C14,C15,C20,C04 tier=thorough unwind=23 stubs=greedy0 witness=rejected,data_accepted,control_accepted
msg_dec!(msg_dec_19, 19);
//@ props=C02 tier=thorough unwind=23 stubs=greedy0 witness=rejected,data_accepted,control_accepted
msg_dec_mon!(msg_dec_mon_19, 19);
//@ props=C14 tier=thorough unwind=23 stubs=greedy0 witness=rejected,data_accepted,control_accepted
msg_default!(msg_default_19, 19);
//@ props=C01,C05,C08,C14,C15,C20,C04 tier=thorough unwind=24 stubs=greedy0 witness=rejected,data_accepted,control_accepted
msg_dec!(msg_dec_20, 20);
//@ props=C02 tier=thorough unwind=24 stubs=greedy0 witness=rejected,data_accepted,control_accepted
msg_dec_mon!(msg_dec_mon_20, 20);
//@ props=C14 tier=thorough unwind=24 stubs=greedy0 witness=rejected,data_accepted,control_accepted
msg_default!(msg_default_20, 20);
//@ props=C01,C05,C08,C14,C15,C20,C04 tier=thorough unwind=25 stubs=greedy0 witness=rejected,data_accepted,control_accepted
msg_dec!(msg_dec_21, 21);
//@ props=C02 tier=thorough unwind=25 stubs=greedy0 witness=rejected,data_accepted,control_accepted
msg_dec_mon!(msg_dec_mon_21, 21);
//@ props=C14 tier=thorough unwind=25 stubs=greedy0 witness=rejected,data_accepted,control_accepted
msg_default!(msg_default_21, 21);
//@ props=C01,C05,C08,C14,C15,C20,C04 tier=thorough unwind=26 stubs=greedy0 witness=rejected,data_accepted,control_accepted
msg_dec!(msg_dec_22, 22);
//@ props=C02 tier=thorough unwind=26 stubs=greedy0 witness=rejected,data_accepted,control_accepted
msg_dec_mon!(msg_dec_mon_22, 22);
//@ props=C14 tier=thorough unwind=26 stubs=greedy0 witness=rejected,data_accepted,control_accepted
msg_default!(msg_default_22, 22);
//@ props=C01,C05,C08,C14,C15,C20,C04 tier=thorough unwind=27 stubs=greedy0 witness=rejected,data_accepted,control_accepted
msg_dec!(msg_dec_23, 23);
//@ props=C02 tier=thorough unwind=27 stubs=greedy0 witness=rejected,data_accepted,control_accepted
msg_dec_mon!(msg_dec_mon_23, 23);
//@ props=C14 tier=thorough unwind=27 stubs=greedy0 witness=rejected,data_accepted,control_accepted
msg_default!(msg_default_23, 23);
//@ props=C01,C05,C08,C14,C15,C20,C04 tier=thorough unwind=28 stubs=greedy0 witness=rejected,data_accepted,control_accepted
msg_dec!(msg_dec_24, 24);
//@ props=C02 tier=thorough unwind=28 stubs=greedy0 witness=rejected,data_accepted,control_accepted
msg_dec_mon!(msg_dec_mon_24, 24);
//@ props=C14 tier=thorough unwind=28 stubs=greedy0 witness=rejected,data_accepted,control_accepted
msg_default!(msg_default_24, 24);

pub const HARNESSES: &[(&str, fn())] = &[
    ("msg_dec_0", msg_dec_0),
    ("msg_dec_mon_0", msg_dec_mon_0),
    ("msg_default_0", msg_default_0),
    ("msg_dec_1", msg_dec_1),
    ("msg_dec_mon_1", msg_dec_mon_1),
    ("msg_default_1", msg_default_1),
    ("msg_dec_2", msg_dec_2),
    ("msg_dec_mon_2", msg_dec_mon_2),
    ("msg_default_2", msg_default_2),
    ("msg_dec_3", msg_dec_3),
    ("msg_dec_mon_3", msg_dec_mon_3),
    ("msg_default_3", msg_default_3),
    ("msg_dec_4", msg_dec_4),
    ("msg_dec_mon_4", msg_dec_mon_4),
    ("msg_default_4", msg_default_4),
    ("msg_dec_5", msg_dec_5),
    ("msg_dec_mon_5", msg_dec_mon_5),
    ("msg_default_5", msg_default_5),
    ("msg_dec_6", msg_dec_6),
    ("msg_dec_mon_6", msg_dec_mon_6),
    ("msg_default_6", msg_default_6),
    ("msg_dec_7", msg_dec_7),
    ("msg_dec_mon_7", msg_dec_mon_7),
    ("msg_default_7", msg_default_7),
    ("msg_dec_8", msg_dec_8),
    ("msg_dec_mon_8", msg_dec_mon_8),
    ("msg_default_8", msg_default_8),
    ("msg_dec_9", msg_dec_9),
    ("msg_dec_mon_9", msg_dec_mon_9),
    ("msg_default_9", msg_default_9),
    ("msg_dec_10", msg_dec_10),
    ("msg_dec_mon_10", msg_dec_mon_10),
    ("msg_default_10", msg_default_10),
    ("msg_dec_11", msg_dec_11),
    ("msg_dec_mon_11", msg_dec_mon_11),
    ("msg_default_11", msg_default_11),
    ("msg_dec_12", msg_dec_12),
    ("msg_dec_mon_12", msg_dec_mon_12),
    ("msg_default_12", msg_default_12),
    ("msg_dec_13", msg_dec_13),
    ("msg_dec_mon_13", msg_dec_mon_13),
    ("msg_default_13", msg_default_13),
    ("msg_dec_14", msg_dec_14),
    ("msg_dec_mon_14", msg_dec_mon_14),
    ("msg_default_14", msg_default_14),
    ("msg_dec_15", msg_dec_15),
    ("msg_dec_mon_15", msg_dec_mon_15),
    ("msg_default_15", msg_default_15),
    ("msg_dec_16", msg_dec_16),
    ("msg_dec_mon_16", msg_dec_mon_16),
    ("msg_default_16", msg_default_16),
    ("msg_dec_17", msg_dec_17),
    ("msg_dec_mon_17", msg_dec_mon_17),
    ("msg_default_17", msg_default_17),
    ("msg_dec_18", msg_dec_18),
    ("msg_dec_mon_18", msg_dec_mon_18),
    ("msg_default_18", msg_default_18),
    ("msg_dec_19", msg_dec_19),
    ("msg_dec_mon_19", msg_dec_mon_19),
    ("msg_default_19", msg_default_19),
    ("msg_dec_20", msg_dec_20),
    ("msg_dec_mon_20", msg_dec_mon_20),
    ("msg_default_20", msg_default_20),
    ("msg_dec_21", msg_dec_21),
    ("msg_dec_mon_21", msg_dec_mon_21),
    ("msg_default_21", msg_default_21),
    ("msg_dec_22", msg_dec_22),
    ("msg_dec_mon_22", msg_dec_mon_22),
    ("msg_default_22", msg_default_22),
    ("msg_dec_23", msg_dec_23),
    ("msg_dec_mon_23", msg_dec_mon_23),
    ("msg_default_23", msg_default_23),
    ("msg_dec_24", msg_dec_24),
    ("msg_dec_mon_24", msg_dec_mon_24),
    ("msg_default_24", msg_default_24),
];
// GENERATED BY gen.py — END
