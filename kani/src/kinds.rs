//! Helpers shared by the per-kind harnesses: symbolic construction of every
//! AVP kind at a given payload size, record assembly.

use crate::nd;
use crate::spec::avp::{SpecAvp, SV};
use crate::spec::utf8::is_utf8;
use rl2tp::avp::types as T;
use rl2tp::avp::AVP;
use rl2tp::common::SliceReader;

/// `n` symbolic octets in a heap vector of concrete length.
pub fn sym_vec(n: usize) -> Vec<u8> {
    let mut v = Vec::with_capacity(n);
    let mut i = 0;
    while i < n {
        v.push(nd::any::<u8>());
        i += 1;
    }
    v
}

fn message_type_from(c: u16) -> T::MessageType {
    use T::MessageType::*;
    match c {
        1 => StartControlConnectionRequest,
        2 => StartControlConnectionReply,
        3 => StartControlConnectionConnected,
        4 => StopControlConnectionNotification,
        6 => Hello,
        7 => OutgoingCallRequest,
        8 => OutgoingCallReply,
        9 => OutgoingCallConnected,
        10 => IncomingCallRequest,
        11 => IncomingCallReply,
        12 => IncomingCallConnected,
        14 => CallDisconnectNotify,
        15 => WanErrorNotify,
        _ => SetLinkInfo,
    }
}

fn error_type_from(c: u16) -> T::result_code::ErrorType {
    use T::result_code::ErrorType::*;
    match c {
        0 => Ok,
        1 => NoControlConnectionExists,
        2 => WrongLength,
        3 => OutOfRangeOrBadReserved,
        4 => InsufficientResources,
        5 => InvalidSessionId,
        6 => Generic,
        7 => TryAnotherDestination,
        _ => UnknownMandatoryAvp,
    }
}

fn proxy_authen_type_from(c: u16) -> T::ProxyAuthenType {
    use T::ProxyAuthenType::*;
    match c {
        0 => Reserved,
        1 => TextualUserNamePasswordExchange,
        2 => PppChap,
        3 => PppPap,
        4 => NoAuthentication,
        _ => MicrosoftChapVersion1,
    }
}

fn leak(v: Vec<u8>) -> &'static [u8] {
    Box::leak(v.into_boxed_slice())
}

/// `n` symbolic octets of well-formed UTF-8.
pub fn sym_utf8(n: usize) -> &'static [u8] {
    let v = sym_vec(n);
    nd::assume(is_utf8(&v));
    leak(v)
}

/// A symbolic *specified value* of the AVP kind with attribute type `t` whose
/// payload is `n` octets long (`n` is ignored for fixed-size kinds; for Result
/// Code 2 = code only, 4 = with error type, > 4 = with a message of n-4
/// octets; for Q.931 3 = no advisory, > 3 = advisory of n-3 octets).  Every
/// encodable value of the kind at that size is an instance.  `from_spec` turns
/// it into the crate value it denotes.
pub fn mk_spec(t: u16, n: usize) -> SpecAvp<'static> {
    let v = match t {
        0 => {
            let c: u16 = nd::any();
            nd::assume(crate::spec::avp::message_type_assigned(c));
            SV::MessageType(c)
        }
        1 => {
            let code: u16 = nd::any();
            let err = if n < 4 {
                None
            } else {
                let e: u16 = nd::any();
                nd::assume(e <= 8);
                Some((e, if n > 4 { Some(sym_utf8(n - 4)) } else { None }))
            };
            SV::ResultCode { code, err }
        }
        2 => SV::ProtocolVersion(nd::any(), nd::any()),
        3 | 4 | 18 | 19 => SV::Mask(nd::any()),
        5 => SV::U64(nd::any()),
        6 | 9 | 10 | 14 => SV::U16(nd::any()),
        7 | 11 | 26 | 27 | 28 | 30 | 31 | 33 | 37 => SV::Bytes(leak(sym_vec(n))),
        8 | 21 | 22 | 23 => SV::Str(sym_utf8(n)),
        12 => SV::Q931 {
            code: nd::any(),
            msg: nd::any(),
            adv: if n > 3 { Some(sym_utf8(n - 3)) } else { None },
        },
        13 => SV::Arr16(nd::any()),
        15 | 16 | 17 | 24 | 38 => SV::U32(nd::any()),
        25 | 36 => SV::Arr4(nd::any()),
        29 => {
            let c: u16 = nd::any();
            nd::assume(c <= 5);
            SV::ProxyAuthenType(c)
        }
        32 => SV::ProxyAuthenId(nd::any()),
        34 => SV::CallErrors([nd::any(), nd::any(), nd::any(), nd::any(), nd::any(), nd::any()]),
        35 => SV::Accm(nd::any(), nd::any()),
        39 => SV::Empty,
        _ => panic!("mk_spec: not an assigned attribute type"),
    };
    SpecAvp { t, v }
}

/// Payload size the encoder must produce for `mk_spec(t, n)`.
pub fn payload_len(t: u16, n: usize) -> usize {
    match crate::spec::avp::fixed_len(t) {
        Some(l) => l,
        None => n,
    }
}

macro_rules! with_local_table {
    ($t:expr, $a:expr, $f:expr; $($num:expr => $var:ident),* $(,)?) => {
        match $t {
            $($num => match $a {
                AVP::$var(x) => {
                    $f(AVP::$var(x));
                    true
                }
                _ => false,
            },)*
            _ => false,
        }
    };
}

/// Run `f` on a decoded AVP (taken out of the heap `Vec` the decoder
/// returned) re-wrapped in a local of the variant RFC 2661 assigns to
/// attribute type `t`.  Values that travelled through a heap-allocated `AVP`
/// lose their constant discriminant in CBMC's symbolic execution (DESIGN.md §2
/// P21); the re-wrapped local, used inside the arm that built it, has a
/// constant one again.  Returns `false` without calling `f` when the value is
/// not of the kind number `t` names (the dispatch itself is wrong).
pub fn with_local<F: FnOnce(AVP)>(t: u16, a: AVP, f: F) -> bool {
    with_local_table!(t, a, f;
        0 => MessageType, 1 => ResultCode, 2 => ProtocolVersion, 3 => FramingCapabilities,
        4 => BearerCapabilities, 5 => TieBreaker, 6 => FirmwareRevision, 7 => HostName,
        8 => VendorName, 9 => AssignedTunnelId, 10 => ReceiveWindowSize, 11 => Challenge,
        12 => Q931CauseCode, 13 => ChallengeResponse, 14 => AssignedSessionId, 15 => CallSerialNumber,
        16 => MinimumBps, 17 => MaximumBps, 18 => BearerType, 19 => FramingType,
        21 => CalledNumber, 22 => CallingNumber, 23 => SubAddress, 24 => TxConnectSpeed,
        25 => PhysicalChannelId, 26 => InitialReceivedLcpConfReq, 27 => LastSentLcpConfReq,
        28 => LastReceivedLcpConfReq, 29 => ProxyAuthenType, 30 => ProxyAuthenName,
        31 => ProxyAuthenChallenge, 32 => ProxyAuthenId, 33 => ProxyAuthenResponse,
        34 => CallErrors, 35 => Accm, 36 => RandomVector, 37 => PrivateGroupId,
        38 => RxConnectSpeed, 39 => SequencingRequired,
    )
}

fn vec_of(b: &[u8]) -> Vec<u8> {
    let mut v = Vec::with_capacity(b.len());
    let mut i = 0;
    while i < b.len() {
        v.push(b[i]);
        i += 1;
    }
    v
}

fn string_of(b: &[u8]) -> String {
    // only called on octets the specification accepted as UTF-8
    unsafe { String::from_utf8_unchecked(vec_of(b)) }
}

/// The crate value that a specified value denotes, built as a *local* (constant
/// discriminant and field lengths in symbolic execution — which a value taken
/// out of the decoder's heap `Vec` does not have, DESIGN.md §2).  Only
/// meaningful for accepted values.  Bitmask kinds are built by decoding their
/// 32-bit word (the only public way to obtain an arbitrary word).
pub fn from_spec(s: &SpecAvp) -> AVP {
    match (s.t, &s.v) {
        (t, SV::Hidden(v)) => AVP::Hidden(T::Hidden {
            attribute_type: t,
            value: vec_of(v),
        }),
        (0, SV::MessageType(c)) => AVP::MessageType(message_type_from(*c)),
        (1, SV::ResultCode { code, err }) => AVP::ResultCode(T::ResultCode {
            code: (*code).into(),
            error: match err {
                None => None,
                Some((e, m)) => Some(T::result_code::Error {
                    error_type: error_type_from(*e),
                    error_message: match m {
                        None => None,
                        Some(b) => Some(string_of(b)),
                    },
                }),
            },
        }),
        (2, SV::ProtocolVersion(v, r)) => AVP::ProtocolVersion(T::ProtocolVersion { version: *v, revision: *r }),
        (3, SV::Mask(w)) => AVP::FramingCapabilities(T::FramingCapabilities::try_read(&mut SliceReader::from(&w.to_be_bytes())).unwrap()),
        (4, SV::Mask(w)) => AVP::BearerCapabilities(T::BearerCapabilities::try_read(&mut SliceReader::from(&w.to_be_bytes())).unwrap()),
        (18, SV::Mask(w)) => AVP::BearerType(T::BearerType::try_read(&mut SliceReader::from(&w.to_be_bytes())).unwrap()),
        (19, SV::Mask(w)) => AVP::FramingType(T::FramingType::try_read(&mut SliceReader::from(&w.to_be_bytes())).unwrap()),
        (5, SV::U64(v)) => AVP::TieBreaker((*v).into()),
        (6, SV::U16(v)) => AVP::FirmwareRevision((*v).into()),
        (9, SV::U16(v)) => AVP::AssignedTunnelId((*v).into()),
        (10, SV::U16(v)) => AVP::ReceiveWindowSize((*v).into()),
        (14, SV::U16(v)) => AVP::AssignedSessionId((*v).into()),
        (15, SV::U32(v)) => AVP::CallSerialNumber((*v).into()),
        (16, SV::U32(v)) => AVP::MinimumBps((*v).into()),
        (17, SV::U32(v)) => AVP::MaximumBps((*v).into()),
        (24, SV::U32(v)) => AVP::TxConnectSpeed((*v).into()),
        (38, SV::U32(v)) => AVP::RxConnectSpeed((*v).into()),
        (7, SV::Bytes(b)) => AVP::HostName(vec_of(b).into()),
        (11, SV::Bytes(b)) => AVP::Challenge(vec_of(b).into()),
        (26, SV::Bytes(b)) => AVP::InitialReceivedLcpConfReq(vec_of(b).into()),
        (27, SV::Bytes(b)) => AVP::LastSentLcpConfReq(vec_of(b).into()),
        (28, SV::Bytes(b)) => AVP::LastReceivedLcpConfReq(vec_of(b).into()),
        (30, SV::Bytes(b)) => AVP::ProxyAuthenName(vec_of(b).into()),
        (31, SV::Bytes(b)) => AVP::ProxyAuthenChallenge(vec_of(b).into()),
        (33, SV::Bytes(b)) => AVP::ProxyAuthenResponse(vec_of(b).into()),
        (37, SV::Bytes(b)) => AVP::PrivateGroupId(vec_of(b).into()),
        (8, SV::Str(b)) => AVP::VendorName(string_of(b).into()),
        (21, SV::Str(b)) => AVP::CalledNumber(string_of(b).into()),
        (22, SV::Str(b)) => AVP::CallingNumber(string_of(b).into()),
        (23, SV::Str(b)) => AVP::SubAddress(string_of(b).into()),
        (12, SV::Q931 { code, msg, adv }) => AVP::Q931CauseCode(T::Q931CauseCode {
            cause_code: *code,
            cause_msg: *msg,
            advisory: match adv {
                None => None,
                Some(b) => Some(string_of(b)),
            },
        }),
        (13, SV::Arr16(a)) => AVP::ChallengeResponse((*a).into()),
        (25, SV::Arr4(a)) => AVP::PhysicalChannelId((*a).into()),
        (36, SV::Arr4(a)) => AVP::RandomVector((*a).into()),
        (29, SV::ProxyAuthenType(c)) => AVP::ProxyAuthenType(proxy_authen_type_from(*c)),
        (32, SV::ProxyAuthenId(v)) => AVP::ProxyAuthenId((*v).into()),
        (34, SV::CallErrors(v)) => AVP::CallErrors(T::CallErrors {
            crc_errors: v[0],
            framing_errors: v[1],
            hardware_overruns: v[2],
            buffer_overruns: v[3],
            timeout_errors: v[4],
            alignment_errors: v[5],
        }),
        (35, SV::Accm(s, r)) => AVP::Accm(T::Accm { send_accm: *s, receive_accm: *r }),
        (39, SV::Empty) => AVP::SequencingRequired(T::SequencingRequired {}),
        _ => panic!("from_spec: value shape does not fit the attribute type"),
    }
}
