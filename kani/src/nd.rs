//! Nondeterminism / assertion layer shared by the Kani harnesses and their
//! native replay twins.  Under `cfg(kani)` every draw is `kani::any()` and
//! every check is a CBMC property; natively the draws come from the byte
//! vectors of a solver counterexample (one vector per primitive draw, in
//! draw order — the format of `--concrete-playback=print`) and a failed
//! check is recorded by the replay driver.

#[cfg(not(kani))]
use std::cell::RefCell;

#[cfg(not(kani))]
thread_local! {
    static QUEUE: RefCell<std::collections::VecDeque<Vec<u8>>> = RefCell::new(Default::default());
    static EXHAUSTED: RefCell<bool> = RefCell::new(false);
    static COVERED: RefCell<Vec<&'static str>> = RefCell::new(Vec::new());
    static FAILED: RefCell<Vec<&'static str>> = RefCell::new(Vec::new());
}

#[cfg(not(kani))]
pub fn native_load(vals: Vec<Vec<u8>>) {
    QUEUE.with(|q| *q.borrow_mut() = vals.into());
    EXHAUSTED.with(|e| *e.borrow_mut() = false);
    COVERED.with(|c| c.borrow_mut().clear());
    FAILED.with(|c| c.borrow_mut().clear());
}

#[cfg(not(kani))]
pub fn native_fail(msg: &'static str) {
    FAILED.with(|c| c.borrow_mut().push(msg));
}

#[cfg(not(kani))]
pub fn native_failed() -> Vec<&'static str> {
    FAILED.with(|c| c.borrow().clone())
}

#[cfg(not(kani))]
pub fn native_exhausted() -> bool {
    EXHAUSTED.with(|e| *e.borrow())
}

#[cfg(not(kani))]
pub fn native_covered() -> Vec<&'static str> {
    COVERED.with(|c| c.borrow().clone())
}

#[cfg(not(kani))]
pub fn native_cover(name: &'static str) {
    COVERED.with(|c| c.borrow_mut().push(name));
}

#[cfg(not(kani))]
fn pop(n: usize) -> Vec<u8> {
    QUEUE.with(|q| match q.borrow_mut().pop_front() {
        Some(mut v) => {
            v.resize(n, 0);
            v
        }
        None => {
            EXHAUSTED.with(|e| *e.borrow_mut() = true);
            vec![0; n]
        }
    })
}

/// Payload of the panic raised natively by a violated `assume`.
#[derive(Debug)]
pub struct AssumeViolated;

pub trait Nd: Sized {
    fn nd() -> Self;
}

macro_rules! nd_int {
    ($($t:ty),*) => {$(
        impl Nd for $t {
            #[inline(always)]
            fn nd() -> Self {
                #[cfg(kani)]
                { kani::any() }
                #[cfg(not(kani))]
                {
                    let v = pop(core::mem::size_of::<$t>());
                    let mut a = [0u8; core::mem::size_of::<$t>()];
                    a.copy_from_slice(&v);
                    <$t>::from_le_bytes(a)
                }
            }
        }
    )*};
}
nd_int!(u8, u16, u32, u64, usize);

impl Nd for bool {
    #[inline(always)]
    fn nd() -> Self {
        #[cfg(kani)]
        {
            kani::any()
        }
        #[cfg(not(kani))]
        {
            pop(1)[0] & 1 != 0
        }
    }
}

impl<const N: usize> Nd for [u8; N] {
    #[inline(always)]
    fn nd() -> Self {
        #[cfg(kani)]
        {
            kani::any()
        }
        #[cfg(not(kani))]
        {
            let mut a = [0u8; N];
            for x in a.iter_mut() {
                *x = pop(1)[0];
            }
            a
        }
    }
}

#[inline(always)]
pub fn any<T: Nd>() -> T {
    T::nd()
}

#[inline(always)]
pub fn assume(c: bool) {
    #[cfg(kani)]
    kani::assume(c);
    #[cfg(not(kani))]
    if !c {
        std::panic::panic_any(AssumeViolated);
    }
}

/// `check!(cond, "Cxx[,Cyy]: text")` — a tagged property.
///
/// Under Kani it is a *negative cover*: `cover!(!cond)` that must come back
/// UNSATISFIABLE.  Unlike `assert!` (which Kani follows with an `assume`), it
/// does not cut the path, so one violated property never hides the checks of
/// another property further down the same path; a SATISFIED one comes with its
/// own concrete-playback vector.  Natively a failed check is recorded and
/// execution continues.
#[macro_export]
macro_rules! check {
    ($c:expr, $m:literal) => {{
        #[cfg(kani)]
        {
            kani::cover!(!($c), $m);
        }
        #[cfg(not(kani))]
        {
            if !($c) {
                $crate::nd::native_fail($m);
            }
        }
    }};
}

/// `require!(cond, "Cxx: text")` — a `check!` whose failure makes the rest of
/// the harness meaningless (e.g. a length about to be used as an index): the
/// harness returns when it does not hold.
#[macro_export]
macro_rules! require {
    ($c:expr, $m:literal) => {{
        let ok: bool = $c;
        $crate::check!(ok, $m);
        if !ok {
            return;
        }
    }};
}

/// `witness!(cond, "name")` — vacuity witness; must come back SATISFIED.
#[macro_export]
macro_rules! witness {
    ($c:expr, $m:literal) => {{
        #[cfg(kani)]
        {
            kani::cover!($c, $m);
        }
        #[cfg(not(kani))]
        {
            if $c {
                $crate::nd::native_cover($m);
            }
        }
    }};
}
