//! Harness crate for the solver-based checks of nilssonk/rl2tp (see
//! /verif/DESIGN.md).  Every `#[kani::proof]` function here is also compiled
//! natively as its own replay twin (`src/bin/replay.rs`).

pub mod model;
pub mod nd;
pub mod spec;
pub mod stubs;

pub mod kinds;

pub mod h_basic;
pub mod h_ctrl;
pub mod h_err;
pub mod h_greedy;
pub mod h_hide;
pub mod h_leaf;
pub mod h_msg;
pub mod h_pure;
pub mod h_rw;

/// `#[kani::proof]` wrappers for the harnesses selected by the runner
/// (generated per build shard by /verif/check; see DESIGN.md §6).
#[cfg(kani)]
mod proofs;

/// Native dispatch table: harness name → body.
pub fn all_harnesses() -> Vec<(&'static str, fn())> {
    let mut v: Vec<(&'static str, fn())> = Vec::new();
    v.extend_from_slice(h_basic::HARNESSES);
    v.extend_from_slice(h_ctrl::HARNESSES);
    v.extend_from_slice(h_err::HARNESSES);
    v.extend_from_slice(h_greedy::HARNESSES);
    v.extend_from_slice(h_hide::HARNESSES);
    v.extend_from_slice(h_leaf::HARNESSES);
    v.extend_from_slice(h_msg::HARNESSES);
    v.extend_from_slice(h_pure::HARNESSES);
    v.extend_from_slice(h_rw::HARNESSES);
    v
}
