//! Native sanity checks of the specification itself (a spec typo must show up
//! as a spec bug, not as a finding).

use rl2tp_verif::spec::utf8::is_utf8;

#[test]
fn utf8_model_agrees_with_std_exhaustively_up_to_3_and_sampled_4() {
    for a in 0..=255u8 {
        assert_eq!(is_utf8(&[a]), std::str::from_utf8(&[a]).is_ok());
        for b in 0..=255u8 {
            assert_eq!(is_utf8(&[a, b]), std::str::from_utf8(&[a, b]).is_ok(), "{a:x} {b:x}");
        }
    }
    let interesting = [0x00u8, 0x7f, 0x80, 0x8f, 0x90, 0x9f, 0xa0, 0xbf, 0xc0, 0xc1, 0xc2, 0xdf, 0xe0, 0xe1, 0xec, 0xed, 0xee, 0xef, 0xf0, 0xf1, 0xf3, 0xf4, 0xf5, 0xff];
    for &a in &interesting {
        for &b in &interesting {
            for &c in &interesting {
                assert_eq!(is_utf8(&[a, b, c]), std::str::from_utf8(&[a, b, c]).is_ok());
                for &d in &interesting {
                    for &e in &interesting {
                        let v = [a, b, c, d, e];
                        assert_eq!(is_utf8(&v), std::str::from_utf8(&v).is_ok(), "{v:x?}");
                    }
                }
            }
        }
    }
}

#[test]
fn md5_reference_rfc1321_vectors() {
    use rl2tp_verif::spec::md5ref::md5_one_block;
    let hex = |d: [u8; 16]| d.iter().map(|b| format!("{b:02x}")).collect::<String>();
    assert_eq!(hex(md5_one_block(b"")), "d41d8cd98f00b204e9800998ecf8427e");
    assert_eq!(hex(md5_one_block(b"a")), "0cc175b9c0f1b6a831c399e269772661");
    assert_eq!(hex(md5_one_block(b"abc")), "900150983cd24fb0d6963f7d28e17f72");
    assert_eq!(hex(md5_one_block(b"message digest")), "f96b697d7cb7938d525a2f31aaf161d0");
    assert_eq!(hex(md5_one_block(b"abcdefghijklmnopqrstuvwxyz")), "c3fcd3d76192e4007dfb496cca67e13b");
    for n in 0..=55usize {
        let m: Vec<u8> = (0..n).map(|i| (i * 7 + 3) as u8).collect();
        assert_eq!(md5_one_block(&m), md5::compute(&m).0);
    }
}
