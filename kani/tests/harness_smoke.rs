//! Native smoke run of every harness body on pseudo-random draws: the
//! specification and the real crate must agree on them (a spec typo shows up
//! here as a spec bug, not as a finding).  Draws that violate a harness
//! assumption are skipped.

use rl2tp_verif::nd;

fn lcg(seed: &mut u64) -> u8 {
    *seed = seed.wrapping_mul(6364136223846793005).wrapping_add(1442695040888963407);
    (*seed >> 33) as u8
}

#[test]
fn harness_bodies_agree_with_the_real_crate_on_random_draws() {
    std::panic::set_hook(Box::new(|_| {}));
    let mut ran = 0u32;
    let mut skipped = 0u32;
    for (name, f) in rl2tp_verif::all_harnesses() {
        // the should-panic harnesses and the I/O probe are not value checks
        if name.starts_with("avp_len_10") || name.starts_with("avp_len_12") || name == "hide_oversize_1018" || name == "writer_overwrite_oob" || name == "io_probe" {
            continue;
        }
        for round in 0..6u64 {
            let mut seed = 0x9e3779b97f4a7c15u64 ^ (round.wrapping_mul(0x1234567)) ^ (name.len() as u64) << 17;
            for b in name.bytes() {
                seed = seed.rotate_left(5) ^ b as u64;
            }
            // small values are over-represented so that lengths / codes are often valid
            let vals: Vec<Vec<u8>> = (0..4096)
                .map(|i| {
                    let x = lcg(&mut seed);
                    let y = if (round + i as u64) % 3 == 0 { x % 8 } else { x };
                    vec![y, 0, 0, 0, 0, 0, 0, 0]
                })
                .collect();
            nd::native_load(vals);
            let r = std::panic::catch_unwind(f);
            let failed = nd::native_failed();
            match r {
                Ok(()) => ran += 1,
                Err(p) => {
                    if p.downcast_ref::<nd::AssumeViolated>().is_some() {
                        skipped += 1;
                    } else {
                        panic!("harness {name} panicked natively (round {round})");
                    }
                }
            }
            assert!(failed.is_empty(), "harness {name} round {round}: {failed:?}");
        }
    }
    eprintln!("{ran} harness runs, {skipped} skipped on assumptions");
    assert!(ran > 1000);
}
