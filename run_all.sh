#!/bin/sh
# Runs every claimed check once (tier $1, default quick) and prints a summary line per property.
tier=${1:-quick}
cd "$(dirname "$0")"
for p in $(python3 -c "import json; print(' '.join(c['property_id'] for c in json.load(open('MANIFEST.json'))['checks']))"); do
  s=$(date +%s)
  ./check $p --tier $tier > logs_$p.out 2>&1
  rc=$?
  e=$(date +%s)
  echo "$p rc=$rc wall=$((e-s))s $(tail -1 logs_$p.out | cut -c1-160)"
  grep -E "^(VIOLATION|INCONCLUSIVE|KNOWN-FINDING)" logs_$p.out | cut -c1-300
done
