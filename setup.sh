#!/bin/sh
# Offline setup after a fresh restore: warm the native build of the harness
# crate's dependencies.  Every check rebuilds /repo and the harness crate from
# the current working tree itself, so this only saves time.
set -e
cd "$(dirname "$0")/kani"
export CARGO_NET_OFFLINE=true
cp /repo/Cargo.lock Cargo.lock
cargo build --offline --bin replay >/dev/null 2>&1 || cargo build --offline --bin replay
cargo kani --version
echo setup ok
