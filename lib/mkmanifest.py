#!/usr/bin/env python3
"""Regenerates /verif/MANIFEST.json from lib/extra.py (EVIDENCE / MANIFEST_INFO)."""
import json, os, sys
sys.path.insert(0, os.path.dirname(os.path.abspath(__file__)))
import extra

VERIF = os.path.dirname(os.path.dirname(os.path.abspath(__file__)))
props = [json.loads(l)["id"] for l in open(os.path.join(VERIF, "properties.jsonl"))]
checks, na = [], []
for pid in props:
    info = extra.EVIDENCE.get(pid)
    if not info or not info.get("claimed", True):
        na.append(dict(property_id=pid, reason=(info or {}).get("na_reason", "check not built yet (work in progress; see DESIGN.md §4)")))
        continue
    checks.append(dict(
        property_id=pid,
        quick_cmd=f"./check {pid} --tier quick",
        thorough_cmd=f"./check {pid} --tier thorough",
        evidence_file=f"evidence/{pid}.json",
        replay_cmd_template=f"./check {pid} --replay {{path}}",
        engine="kani-cbmc",
        level_claimed=dict(category=info.get("level", "model_checking"), text=info["level_text"], design_ref=info.get("design_ref", "DESIGN.md §4 " + pid)),
        level_note=info["level_note"],
        technique=info.get("technique", "bounded symbolic execution of the compiled crate (Kani 0.68 → CBMC 6.11 → CaDiCaL), unwinding assertions on, vacuity witnesses, native replay of counterexamples"),
    ))
m = dict(
    version=1,
    setup_cmd="./setup.sh",
    hooks=dict(guard="rl2tp_verif", enable="none needed: harnesses drive the public API of /repo (path dependency) under cargo kani; --cfg rl2tp_verif is reserved and unused",
               baseline_off_cmd="cd /repo && cargo test --workspace --no-fail-fast --offline", source_commits=[], add_only=True),
    engines=[dict(name="kani-cbmc", path="kani/", serves_properties=[c["property_id"] for c in checks],
                  kind_free_text="Kani 0.68.0 proof harnesses over /repo's working tree, CBMC 6.11.0 + CaDiCaL; native replay twins of every harness (kani/src/bin/replay.rs)")],
    checks=checks,
    notes="See DESIGN.md. Exit 0 = held within stated bounds, 1 = VIOLATION (reproduced natively), 2 = inconclusive (never reported as success).",
    not_applicable=na,
)
json.dump(m, open(os.path.join(VERIF, "MANIFEST.json"), "w"), indent=1)
print("claimed:", [c["property_id"] for c in checks], "not_applicable:", [n["property_id"] for n in na])
