"""Per-property evidence / manifest texts and the non-Kani part of C19."""

COMMON_NOTE = ("Trusted base: rustc front end + Kani's MIR→goto translation and its std shims, CBMC's symbolic execution and bit-blasting, "
               "CaDiCaL. Kani models the dev profile (overflow checks and debug assertions on). Bounded: every claim is for the enumerated "
               "shapes/sizes only; unwinding assertions make an undersized loop bound a failure.")

EVIDENCE = {
    "C16": dict(
        level="model_checking",
        level_text=("For each enumerated field one symbolic u16 is pushed through the real decoder/encoder and the solver decides the "
                    "accept set, the code→name map (names and numbers taken from RFC 2661, not from the crate) and re-encoding for all "
                    "65 536 values at once; complete for the domain, not sampled."),
        level_note=COMMON_NOTE + " Name↔number tables are transcribed from RFC 2661 §3.2/§4.4.2/§4.4.5.",
        functions_encoded=["types::MessageType::try_read (phf map incl. SipHash)", "types::ResultCode::try_read", "result_code::Error::try_read",
                           "types::ProxyAuthenType::try_read", "CodeValue::{from,as_stop_ccn,as_cdn,into}", "AVP::write", "avp::decode_avp (dispatch, via try_read_greedy)"],
        stubs=[],
        bounds="one 16-bit code per query, fully symbolic (all 65 536 values); attribute-type dispatch at payload lengths listed in the harness names",
        outside_claim=[],
        assumptions=["RFC 2661 number tables transcribed correctly in kani/src/spec/avp.rs and kani/src/h_basic.rs"],
    ),
    "C17": dict(
        level="model_checking",
        level_text=("Constructor→accessor for the four bitmask kinds with both booleans symbolic, and wire word→decode→accessors/encode with "
                    "the whole 32-bit word and the flipped bit position symbolic; the domain is finite and the solver covers all of it."),
        level_note=COMMON_NOTE,
        functions_encoded=["types::{FramingCapabilities,BearerCapabilities,BearerType,FramingType}::{new,try_read,accessors}", "WritableAVP::write for the four kinds", "AVP::write"],
        stubs=[],
        bounds="complete: (bool,bool) and u32 × bit index",
        outside_claim=[],
        assumptions=["accessor ↔ parameter pairing is by name (digital↔digital, analog↔analog, async↔async, sync↔sync; FramingType: first/second)"],
    ),
}


def has_extra(pid):
    return pid == "C19"


def run_extra(pid, ctx):
    """C19, stdout/stderr half: MIR reachability decided by z3 (lib/mir_purity.py),
    a `reachable` verdict confirmed by running the native I/O probe with the
    process's stdout and stderr captured."""
    import json, os, hashlib
    import mir_purity
    res = mir_purity.run("/repo", ctx.scratch)
    ev = dict(technique="call-graph reachability over the nightly MIR dump of /repo's working tree, z3 fixed-point (Datalog) engine",
              **{k: res.get(k) for k in ("status", "functions", "call_edges", "entries", "sinks", "z3_s", "mir_dump_s", "mir_lines", "chain", "why")})
    out = dict(evidence=ev, evaluations=1, distinct_nontrivial=1 if res.get("status") in ("reachable", "unreachable") else 0,
               violations=[], inconclusive=[])
    if res.get("status") == "error":
        out["inconclusive"].append("MIR purity query: " + str(res.get("why")))
    elif res.get("status") == "reachable":
        probe = ctx.native_replay("io_probe", [])
        printed = (probe.get("stdout") or "").strip()
        ev["io_probe"] = dict(outcome=probe.get("outcome"), captured=printed[:300])
        if printed:
            os.makedirs(os.path.join("/verif/replays", pid), exist_ok=True)
            hh = hashlib.sha1(printed.encode()).hexdigest()[:10]
            path = os.path.join("/verif/replays", pid, f"io_probe-{hh}.json")
            json.dump(dict(property=pid, harness="io_probe", vals=[], call_chain=res.get("chain"), sink_calls=res.get("sink_calls"),
                           captured_output=printed[:2000]), open(path, "w"), indent=1)
            chain = " -> ".join(res.get("chain") or [])
            out["violations"].append(dict(name="io_probe", path=path,
                                          msg=f"library writes to stdout/stderr: {chain} calls {sorted(set(sum(res.get('sink_calls', {}).values(), [])))}; captured {printed[:80]!r}"))
        else:
            out["inconclusive"].append("a printing call is reachable in the MIR call graph (%s) but the native probe captured no output" % (res.get("chain"),))
    return out
