"""Per-property evidence / manifest texts and the non-Kani part of C19."""

COMMON_NOTE = ("Trusted base: rustc front end, Kani's MIR->goto translation and its std shims, CBMC's symbolic execution and bit-blasting, "
               "CaDiCaL; the harness crate's executable specification (kani/src/spec, written from RFC 2661 and the crate's documented "
               "bit numbering, self-tested natively). Kani models the dev profile (overflow checks and debug assertions on). Every claim "
               "is bounded: it covers the enumerated shapes/sizes only, all values at those shapes; unwinding assertions are on, so an "
               "undersized loop bound is a failure, never a silent truncation; timeouts / out-of-memory exit 2, never 0.")

TECH = ("bounded symbolic execution of the compiled crate (Kani 0.68 -> CBMC 6.11 -> CaDiCaL) over symbolic inputs at concrete shapes, "
        "against an independent executable specification; unwinding assertions; vacuity witnesses; counterexamples replayed natively")

STUB_UTF8 = "core::str::from_utf8 -> Table 3-7 automaton (kani/src/spec/utf8.rs), self-tested against std natively; used in harnesses of string-bearing kinds"
STUB_DECODE = ("rl2tp::avp::decode_avp -> abs_decode: reads nothing, logs (attribute type, sub-reader length), returns a nondeterministic "
               "Ok(MessageType) / Ok(other) / Err — results hold for every total function in that position")
STUB_GREEDY0 = ("rl2tp::avp::AVP::try_read_greedy -> 'the region holds no AVP' (empty list) in the fully symbolic message-level harnesses; "
                "AVP lists are covered with the real record walker on concrete skeletons and one layer down")
STUB_MD5 = ("md5::compute -> uninterpreted function (Ackermann reduction: fresh digest per call, equal inputs => equal outputs); "
            "counterexamples are replayed natively with real MD5")

LEAF_FUNCS = ["AVP::try_read_greedy", "avp::header::Header::try_read", "avp::decode_avp", "types::*::try_read (39 kinds)", "SliceReader::*", "AVP::write",
              "WritableAVP::write / QueryableAVP::get_length (all kinds)", "VecWriter::*"]
MSG_FUNCS = ["Message::try_read", "Message::try_read_validate", "message::flags::Flags::*", "DataMessage::try_read", "ControlMessage::try_read", "SliceReader::*"]

EVIDENCE = {
    "C01": dict(
        level_text=("Panic / overflow / out-of-range / unwrap / unreachable / non-termination (unwinding assertions) are CBMC properties of the "
                    "compiled decoder; they are decided for all octet values at every enumerated input length of each layer: whole messages with "
                    "all 8 option sets (0-16 octets quick, 0-24 thorough), bare AVP lists with every octet incl. length fields symbolic "
                    "(0-14 / 0-20 octets), every AVP kind at truncated/exact/surplus payload lengths, the symbolic-type dispatch, reveal."),
        level_note=COMMON_NOTE + " Layers are composed by argument (DESIGN.md §3.1), not mechanically: the message layer holds for an empty AVP region, the list layer for every total per-type decoder, the per-type decoders are checked for real.",
        functions_encoded=MSG_FUNCS + LEAF_FUNCS + ["AVP::reveal"], stubs=[STUB_GREEDY0, STUB_DECODE, STUB_UTF8, STUB_MD5],
        bounds="message <= 16 (24) octets; AVP list <= 14 (20) octets, up to 3 records; one record per kind with payload L-1, L, L+1 (fixed kinds), 0-4 (6) octets (strings), 0-3 (7) (byte strings); hidden values 0-32 (48) octets",
        outside_claim=["inputs longer than the bounds", "AVP lists with more than 3 records in one query", "control layer's handling of 2+ decoded AVPs (does not finish in the engine)", "allocation failure"],
        assumptions=["Kani's std models (Vec, String, alloc) are faithful", "layer composition argument of DESIGN.md §3.1"]),
    "C02": dict(
        level_text=("The decoder is instantiated with a harness-supplied Reader that asserts the precondition of every unchecked request "
                    "(read_uN, skip, subreader within what remains) and otherwise is the reference cursor; the same harnesses as C01/C05 "
                    "decide, for all octet values at the enumerated lengths, that no precondition is ever violated and that the result equals "
                    "the specification (hence the SliceReader result). CBMC's pointer checks cover get_unchecked inside SliceReader itself."),
        level_note=COMMON_NOTE + " 'Every conforming reader' is by parametricity: the decoder sees a reader only through the trait and the monitor fixes the unique answer the contract allows.",
        functions_encoded=MSG_FUNCS + LEAF_FUNCS + ["model::MonitorReader (harness)"], stubs=[STUB_GREEDY0, STUB_DECODE, STUB_UTF8],
        bounds="as C01 (monitor instantiation: messages 0-16/24 octets, AVP lists 6,12 (0-20) octets, every per-kind record)",
        outside_claim=["reveal builds its own SliceReader: only pointer checks apply there", "readers that violate the contract"],
        assumptions=["parametricity argument"]),
    "C03": dict(
        level_text=("For every AVP kind and enumerated size a symbolic *specified value* is turned into the crate value it denotes, encoded by the "
                    "real encoder and decoded by the real record walker; the solver decides decode(encode(a)) = a (field-wise against the "
                    "specification and by the crate's own PartialEq) for all field values. Control messages with 0 and 1 AVP (all 14 message "
                    "types) round-trip through the real message codec; AVP pairs/triples through the record walker. Result Code with an error type / message text: "
                    "the decode half is decided for every payload of 2-7 (8) octets (the specified octets of a value decode to that value, dec_1_*); a counterexample is "
                    "reported only if the native twin's full round trip through the real encoder returns a different AVP."),
        level_note=COMMON_NOTE + " Control messages with 2+ AVPs through the real control codec in one query are out of reach (DESIGN.md §2 P11/P21); they are covered record-wise (sequences) plus the 0/1-AVP message harnesses.",
        functions_encoded=LEAF_FUNCS + ["Message::write", "ControlMessage::write", "ControlMessage::try_read", "Message::try_read_validate"], stubs=[STUB_UTF8],
        bounds="38 kinds x sizes {fixed L; 4 (1,9) octets byte strings; 4 (1,6) strings; Q.931 3,7 (4)}; Result Code via c16_* (code, error type) and dec_1_2..7 (8) (decode half, message text <= 3 (4) octets); control messages with 0/1 AVP; sequences of 2-3 AVPs",
        outside_claim=["control messages with 2+ AVPs in one query", "AVPs of 256+ octets through encode then decode (arrays beyond CBMC field sensitivity; the 10-bit length split is decided under C07)", "Result Code with a message text: the encoder half is not in the solver's query (the enum dispatch of that niche-carrying kind needs > 30 GB); it runs natively on the solver's counterexamples only", "hidden AVPs are covered under C11"],
        assumptions=["from_spec (kani/src/kinds.rs) builds the value the specification denotes — itself checked by same() in each harness"]),
    "C04": dict(
        level_text=("Data messages of every enumerated shape (payload 1,2,5,8 octets; Ns/Nr present or not; Length absent or the true total; "
                    "offset absent or 0..payload-1) with all ids, sequence numbers, priority and payload octets symbolic are encoded by the real "
                    "encoder, compared with the specified octets, decoded under the strictest options and compared field by field; plus every "
                    "data message of 0-16 (24) fully symbolic octets against the specification decoder."),
        level_note=COMMON_NOTE,
        functions_encoded=["Message::write", "DataMessage::write", "Flags::new/set_*", "Message::try_read_validate", "DataMessage::try_read", "SliceReader::bytes/skip_bytes"], stubs=[STUB_GREEDY0],
        bounds="52 shapes (14 quick); payload <= 8 octets; offset <= 7", outside_claim=["larger payloads (the code only copies them)"], assumptions=[]),
    "C05": dict(
        level_text=("Accept-iff-specified and field-for-field equality with the executable specification, decided for all octet values at each "
                    "enumerated length, layer by layer: flag word / options / data messages / control header (whole messages 0-16 (24) octets, "
                    "8 option sets), record framing with every octet symbolic (AVP lists 0-14 (20) octets), all 39 payload formats at "
                    "truncated/exact/surplus lengths, the attribute-type dispatch over all 65 536 types, message-type / error-type / proxy-type codes."),
        level_note=COMMON_NOTE + " Oracle independence: the specification shares no code with rl2tp; it demands a particular error only where the properties name one.",
        functions_encoded=MSG_FUNCS + LEAF_FUNCS, stubs=[STUB_GREEDY0, STUB_DECODE, STUB_UTF8],
        bounds="as C01", outside_claim=["as C01"], assumptions=["specification transcribed correctly from RFC 2661 §3.1, §4.1, §4.4 (self-tests: kani/tests)"]),
    "C06": dict(
        level_text=("Encoder output vs specification encoder, octet for octet, for all field values: every AVP kind at the enumerated sizes "
                    "(header: M bit, H only on hidden, reserved zero, vendor 0, type number, 10-bit length), control messages with 0/1 AVP, "
                    "data messages in all 16 optional-field combinations, re-encoded decoded values."),
        level_note=COMMON_NOTE, functions_encoded=["AVP::write", "WritableAVP::write (all kinds)", "AVP::make_flags_and_length", "Message::write", "ControlMessage::write", "DataMessage::write", "Flags::new", "VecWriter::*"],
        stubs=[STUB_UTF8], bounds="as C03/C04", outside_claim=["as C03"], assumptions=[]),
    "C07": dict(
        level_text=("Length exactness: 6 + get_length() = octets written, the 10-bit length and the control Length equal the extent, AVPs tile "
                    "the body — for every kind/size of C03 and, with a length-only writer at a symbolic start offset, at 1022 and 1023 octets; "
                    "refusal: AVPs of 1024, 1025 (1280) octets and hide() of a 1018-octet value must panic — a should_panic harness whose "
                    "'reached the code after the call' witness must be unsatisfiable."),
        level_note=COMMON_NOTE + " NOT decided: 'a control message over 65 535 octets is refused' — needs >= 65 AVPs in one Vec<AVP>, and 2 are already out of the engine's reach.",
        functions_encoded=["AVP::write", "AVP::make_flags_and_length", "AVP::get_length", "AVP::hide (length assertion)", "ControlMessage::write", "model::CountWriter (harness)"], stubs=[STUB_UTF8],
        bounds="sizes of C03 plus 1022/1023/1024/1025/1280; start offset any value < 2^32",
        outside_claim=["message-level 65 535 limit", "sizes strictly between the small enumerated ones and 1022"], assumptions=[]),
    "C08": dict(
        level_text=("Consumed-length assertions in the message harnesses (reader left at n - declared Length for every n and every declared "
                    "length), encoded messages followed by two symbolic foreign octets, and at the AVP-list layer: every record's decoder is handed "
                    "exactly the record's payload length (all framing octets symbolic), sequences of 2-3 AVPs decode to the per-record results in order."),
        level_note=COMMON_NOTE, functions_encoded=MSG_FUNCS + ["AVP::try_read_greedy", "Header::try_read"], stubs=[STUB_GREEDY0, STUB_DECODE, STUB_UTF8],
        bounds="messages 0-16 (24) octets; AVP lists 0-14 (20) octets; suffix 2 octets", outside_claim=["longer suffixes / more records"], assumptions=[]),
    "C09": dict(
        level_text=("Encoding after a 3-octet symbolic prefix leaves it untouched and appends exactly the octets of encoding into an empty writer "
                    "(every kind/size of C03, control 0/1 AVP, data shapes); with a length-only writer whose start offset is symbolic (any value "
                    "< 2^32) every positional overwrite is inside the value being encoded; sequences of 2-3 values equal the concatenation."),
        level_note=COMMON_NOTE, functions_encoded=["AVP::write", "Message::write", "ControlMessage::write", "DataMessage::write", "VecWriter::write_bytes_at"], stubs=[STUB_UTF8],
        bounds="prefix 3 octets stored / any offset counted; as C03", outside_claim=[], assumptions=[]),
    "C10": dict(
        level_text=("For every AVP kind and every accepted payload of the enumerated lengths (all octets symbolic, so non-canonical inputs with "
                    "surplus octets and non-zero reserved octets are included): decode, re-encode, decode, re-encode — same value, same octets, never "
                    "longer. Message level: zero-AVP control messages directly; one-AVP messages by decode = specified value and encode(value) = specified octets. "
                    "Data messages without an offset field: every value the decoder can return at the enumerated shapes (Length absent or the true total — "
                    "C05 ties every accepted octet string to such a value; ids, Ns/Nr, payload symbolic) is encoded, decoded strictly (same value field for field) "
                    "and the decoded value encoded again: same octets (data_rt_*_on)."),
        level_note=COMMON_NOTE + " Decoded values live in a heap Vec whose shape is not constant in symbolic execution; the second round therefore runs on a local value shown (field-wise) to denote the same specified value.",
        functions_encoded=LEAF_FUNCS + ["ControlMessage::try_read/write", "DataMessage::try_read/write", "Message::try_read_validate"], stubs=[STUB_UTF8], bounds="as C05 leaf lengths; data messages: payload 1,2,5 (8) octets x Ns/Nr present/absent x Length present/absent, no offset", outside_claim=["messages with 2+ AVPs", "data messages: the step from an accepted non-canonical octet string (reserved bits, trailing octets) to its decoded value is the C05 message harness, composed by argument", "Result Code (no re-encode harness)"], assumptions=[]),
    "C11": dict(
        level_text=("hide then reveal with the hash an uninterpreted function: for representative kinds, secret lengths 0/1/3/16, one to three "
                    "blocks (aligned and unaligned), all value / secret / random-vector / padding octets symbolic, the solver decides "
                    "reveal(hide(a)) = a; identity cases for hidden / non-hidden arguments."),
        level_note=COMMON_NOTE + " Holds for every hash function, hence for MD5.", functions_encoded=["AVP::hide", "AVP::reveal", "decode_avp", "WritableAVP::write"], stubs=[STUB_MD5, STUB_UTF8],
        bounds="1-2 blocks quick, 3 thorough; secret <= 16 octets; 13 (kind,size,secret,padding) cases", outside_claim=["more than 3 blocks", "kinds/sizes not enumerated", "hidden AVP after encode/decode is covered by the Hidden record harnesses of C05 (opaque octets preserved)"], assumptions=[]),
    "C12": dict(
        level_text=("The hidden value is compared with an independent RFC 2661 §4.3 computation over the same uninterpreted hash, so equality is "
                    "provable only if rl2tp feeds the hash exactly the specified octet strings in the specified roles; size formula, type in clear, "
                    "independence from unused alignment padding; reveal vs the reference decryption for every plaintext of 16/32 (48) octets. The md5 "
                    "dependency itself is compared natively with an RFC 1321 reference (kani/tests)."),
        level_note=COMMON_NOTE + " The original-length subfield holds 6 + |value| (the crate's convention, fixed by its InvalidOriginalAVPLength range 6..=1023); the RFC's literal reading is |value| — not decided by the property text, recorded in DESIGN.md.",
        functions_encoded=["AVP::hide", "AVP::reveal"], stubs=[STUB_MD5, STUB_DECODE], bounds="as C11; reveal 0-32 (48) octets", outside_claim=["MD5 = RFC 1321 only checked natively on vectors, not symbolically"], assumptions=[]),
    "C13": dict(
        level_text=("reveal on every hidden value of 0,1,15,16,17,32 (31,33,48) octets, any attribute type, secret, random vector: for aligned "
                    "sizes the quantifier ranges over the plaintext (the cipher is a bijection for fixed keys), so the solver's counterexample "
                    "replays natively under real MD5; panic/out-of-range are CBMC properties, rejection rules and 'decoded as the announced type "
                    "from exactly the announced length' are assertions."),
        level_note=COMMON_NOTE, functions_encoded=["AVP::reveal", "SliceReader::subreader"], stubs=[STUB_MD5, STUB_DECODE], bounds="values <= 32 (48) octets; secret 0/3 octets", outside_claim=["longer values"], assumptions=[]),
    "C14": dict(
        level_text=("The message harnesses decide decode(b, opts) = spec(b, opts) for symbolic opts and all octets; the specification is by "
                    "construction 'first enabled check that fires rejects, otherwise the option-free result', reading version / reserved / control "
                    "P,O bits nowhere else — monotonicity, exactly-its-own-bits and bit-independence follow. The default entry point is decided "
                    "equal to spec(b, {version})."),
        level_note=COMMON_NOTE, functions_encoded=MSG_FUNCS, stubs=[STUB_GREEDY0], bounds="messages 0-16 (24) octets, all 65 536 flag words, 8 option sets", outside_claim=[], assumptions=["closed-form argument about the specification (kani/src/spec/msg.rs spec_early)"]),
    "C15": dict(
        level_text=("AVP-list layer, every octet symbolic: one result per record in wire order, vendor-specific and undecodable records reported "
                    "and skipped by their own length, parsing stops only at an unusable length field (0-14 (20) octets, up to 3 records). Control "
                    "layer: accepted iff list empty or first is a valid Message Type and nothing failed, for 0 and 1 records through the real codec."),
        level_note=COMMON_NOTE + " NOT decided: order/count of 2+ errors inside the control layer's own collection step (std's into_iter().filter_map().collect()); the engine does not finish on 2 results. That step is assumed order-preserving.",
        functions_encoded=["AVP::try_read_greedy", "Header::try_read", "ControlMessage::try_read"], stubs=[STUB_DECODE, STUB_GREEDY0],
        bounds="<= 3 records at the list layer; <= 1 record through the control layer", outside_claim=["2+ results through ControlMessage::try_read"], assumptions=["std filter_map/collect preserves order"]),
    "C16": dict(
        level_text=("For each enumerated field one symbolic u16 is pushed through the real decoder/encoder and the solver decides the accept set, "
                    "the code->name map (names and numbers from RFC 2661, not from the crate) and re-encoding for all 65 536 values at once."),
        level_note=COMMON_NOTE, functions_encoded=["types::MessageType::try_read (phf map incl. SipHash)", "ResultCode::try_read", "result_code::Error::try_read", "ProxyAuthenType::try_read", "CodeValue::{from,as_stop_ccn,as_cdn}", "decode_avp dispatch"],
        stubs=[STUB_UTF8], bounds="complete per field (one 16-bit code per query); dispatch at payload lengths 2 (0,4,10,26)", outside_claim=[], assumptions=["RFC number tables transcribed correctly"]),
    "C17": dict(
        level_text=("Constructor->accessor for the four bitmask kinds with both booleans symbolic; wire word->decode->accessors/encode with the whole "
                    "32-bit word and the flipped bit symbolic; finite domain, fully covered."),
        level_note=COMMON_NOTE, functions_encoded=["types::{FramingCapabilities,BearerCapabilities,BearerType,FramingType}::{new,try_read,accessors,write}"], stubs=[],
        bounds="complete", outside_claim=[], assumptions=["accessor <-> parameter pairing is by name"]),
    "C18": dict(
        level_text=("SliceReader: sequences of 3-4 (5) operations with symbolic kind and argument on 8 (12) symbolic octets against a cursor model, "
                    "including over-long bytes(n), zero-length requests and sub-reader isolation. VecWriter: fixed operation-kind sequences with "
                    "symbolic values and symbolic overwrite offsets against an array model; out-of-range overwrite must panic."),
        level_note=COMMON_NOTE + " Writer operation kinds are constants (a Vec of symbolic length exhausts memory); unchecked-read preconditions are assumed, as the property states.",
        functions_encoded=["SliceReader::*", "VecWriter::*"], stubs=[], bounds="reader: 8 octets x 4 ops (12 x 5); writer: 3 sequences of 7-12 ops", outside_claim=["longer histories", "symbolic writer operation kinds"], assumptions=[]),
    "C19": dict(
        level="other",
        level_text=("Two solver-decided parts. (1) stdout/stderr: call-graph reachability over the nightly compiler's MIR dump of /repo's working tree "
                    "(regenerated every run), decided by z3's fixed-point engine — path-insensitive and unbounded; a 'reachable' verdict is confirmed "
                    "by a native probe with fds captured before it is reported. (2) no state: a Kani history harness decode; decode'; encode; decode "
                    "with all inputs symbolic. Thread interleavings are NOT explored (no engine here executes Rust threads symbolically)."),
        level_note="Trusted: rustc's MIR printer, the extractor's over-approximate call resolution (by final path segment), z3; for (2) as the other checks. The thread-independence half of the property is an inference from (1)+(2) (no I/O, no shared mutable state), not an explored quantifier.",
        explanation=("stdout/stderr half: Datalog reachability (entry = public codec API, sink = std::io::_print/_eprint/stdout/stderr, std::process, std::fs, std::net) "
                     "over calls(f,g) facts extracted from -Zunpretty=mir; unsat = no execution can print. Kani cannot see println! (its std shim erases it), hence this second engine. "
                     "State half: bounded 3-call history under Kani/CBMC. Schedules: not explored."),
        technique="MIR call-graph reachability decided by z3 Datalog (unbounded, path-insensitive) + Kani bounded history harness; native I/O probe confirms",
        functions_encoded=["every function of the library crate (MIR)", "Message::try_read_validate", "Message::write", "AVP::write", "AVP::try_read_greedy", "MessageType::try_read"], stubs=[STUB_GREEDY0],
        bounds="MIR part unbounded; history: 3 calls, inputs 9+8 (14+13) octets", outside_claim=["thread interleavings"], assumptions=["call resolution over-approximates dynamic dispatch", "Reader/Writer implementations supplied by the caller are environment"]),
    "C20": dict(
        level_text=("Single-fault errors carry the offending value: asserted inside the layer harnesses (InvalidVersion(nibble), InvalidOffset(size), "
                    "UnsupportedVendorId(v), UnknownAvp(t), UnknownMessageType(c), InvalidResultCodeErrorType(e), IncompleteAVP(t)/InvalidUtf8(t) per kind) "
                    "for all values. Rendering: to_string() of IncompleteAVP(t) for all 65 536 t and of AVPReadError(t) for t <= 255 (InvalidUtf8's rendering, which goes through the same name lookup, exhausts memory and is not decided) against the "
                    "RFC name of the kind that number dispatches to (decimal when unassigned); all other variants render non-empty for every payload."),
        level_note=COMMON_NOTE, functions_encoded=["<DecodeError as Display>::fmt", "avp::avp_name", "decode_avp"] + MSG_FUNCS, stubs=[STUB_UTF8, STUB_GREEDY0, STUB_DECODE],
        bounds="as C05 for error values; rendering complete for IncompleteAVP, t <= 255 for AVPReadError", outside_claim=["multi-fault messages (any error accepted)", "text of InvalidUtf8(t) (same avp_name lookup; formula too large)"], assumptions=["name table in kani/src/h_err.rs transcribed from the AVP enum / RFC 2661 §4.4"]),
}
for _k, _v in EVIDENCE.items():
    _v.setdefault("level", "model_checking")
    _v.setdefault("technique", TECH)


def has_extra(pid):
    return pid == "C19"


def run_extra(pid, ctx):
    """C19, stdout/stderr half: MIR reachability decided by z3 (lib/mir_purity.py),
    a `reachable` verdict confirmed by running the native I/O probe with the
    process's stdout and stderr captured."""
    import json, os, hashlib
    import mir_purity
    res = mir_purity.run(os.environ.get("VERIF_REPO", "/repo"), ctx.scratch)
    ev = dict(technique="call-graph reachability over the nightly MIR dump of /repo's working tree, z3 fixed-point (Datalog) engine",
              **{k: res.get(k) for k in ("status", "functions", "call_edges", "entries", "sinks", "z3_s", "mir_dump_s", "mir_lines", "chain", "why")})
    out = dict(evidence=ev, evaluations=1, distinct_nontrivial=1 if res.get("status") in ("reachable", "unreachable") else 0,
               violations=[], inconclusive=[])
    if res.get("status") == "error":
        out["inconclusive"].append("MIR purity query: " + str(res.get("why")))
    elif res.get("status") == "reachable":
        probe = ctx.native_replay("io_probe", [])
        printed = (probe.get("stdout") or "").strip()
        ev["io_probe"] = dict(outcome=probe.get("outcome"), captured=printed[:300])
        if printed:
            os.makedirs(os.path.join("/verif/replays", pid), exist_ok=True)
            hh = hashlib.sha1(printed.encode()).hexdigest()[:10]
            path = os.path.join("/verif/replays", pid, f"io_probe-{hh}.json")
            json.dump(dict(property=pid, harness="io_probe", vals=[], call_chain=res.get("chain"), sink_calls=res.get("sink_calls"),
                           captured_output=printed[:2000]), open(path, "w"), indent=1)
            chain = " -> ".join(res.get("chain") or [])
            out["violations"].append(dict(name="io_probe", path=path,
                                          msg=f"library writes to stdout/stderr: {chain} calls {sorted(set(sum(res.get('sink_calls', {}).values(), [])))}; captured {printed[:80]!r}"))
        else:
            out["inconclusive"].append("a printing call is reachable in the MIR call graph (%s) but the native probe captured no output" % (res.get("chain"),))
    # shared mutable state reachable from the API?  (same MIR encoding, second query)
    ev["state_query"] = dict(status=res.get("state_status"), chain=res.get("state_chain"))
    if res.get("state_status") == "error":
        out["inconclusive"].append("MIR state query: no verdict from z3")
    elif res.get("state_status") == "reachable":
        probe = ctx.native_replay("state_probe", [])
        bad = [m for m in probe.get("failed", [])] or ([probe.get("message")] if probe.get("outcome") in ("panic", "hang", "crash") else [])
        ev["state_probe"] = dict(outcome=probe.get("outcome"), failed=bad[:2])
        chain = " -> ".join(res.get("state_chain") or [])
        if bad:
            os.makedirs(os.path.join("/verif/replays", pid), exist_ok=True)
            path = os.path.join("/verif/replays", pid, "state_probe-%s.json" % hashlib.sha1(chain.encode()).hexdigest()[:10])
            json.dump(dict(property=pid, harness="state_probe", vals=[], call_chain=res.get("state_chain"), state_calls=res.get("state_calls"),
                           native=probe), open(path, "w"), indent=1)
            out["violations"].append(dict(name="state_probe", path=path,
                                          msg=f"C19: shared mutable state reachable from the API ({chain}) and a call history changes a result: {bad[0]}"))
        else:
            out["inconclusive"].append(f"shared mutable state is reachable from the public API in the MIR call graph ({chain}) but the native history probe saw no dependence")
    return out
