#!/usr/bin/env python3
"""C19, "nothing on stdout/stderr": reachability over the nightly compiler's
MIR dump of /repo's current working tree, decided by z3's fixed-point engine.

  facts     calls(f, g)   one per call terminator in the MIR of crate function f;
                          g is resolved to every crate function with the same
                          final path segment (over-approximation of trait /
                          generic dispatch), closures belong to their parent
            sink(f)       f contains a call to std::io::{_print,_eprint,stdout,
                          stderr}, std::process, std::fs, std::net
            entry(f)      the public codec API
  query     exists e, s. entry(e) /\\ reach*(e, s) /\\ sink(s)

Path-insensitive and unbounded: `unsat` means no execution of any input can
reach a printing call; `sat` yields a call chain, which the runner confirms by
running the native I/O probe with stdout/stderr captured.
"""
import os, re, shutil, subprocess, tempfile, time

SINK_RE = re.compile(r"^(std::io::_e?print|std::io::(stdio::)?_e?print|std::io::std(out|err)|std::io::Std(out|err)|std::process::|std::fs::|std::net::|std::os::)")
# shared mutable state: synchronisation primitives / atomics / thread-locals (only useful on statics) and `static mut`
STATE_RE = re.compile(r"(^|::|<)(Mutex|RwLock|Once|OnceLock|LazyLock|Condvar|LocalKey|Atomic[A-Z]\w*)(::|<)")
STATIC_MUT_RE = re.compile(r"const \{alloc\d+: \*mut ")
ENTRY_RE = re.compile(
    r"(::try_read(_validate|_greedy)?$|::write$|::hide$|::reveal$|::get_length$|::from$|::new$|::subreader$|::bytes$|::skip_bytes$|"
    r"::read_u\d+(_be)?_unchecked$|::write_(u\d+(_be)?|bytes(_at)?)$|::len$|::is_empty$|::fmt$|::as_stop_ccn$|::as_cdn$)")


def dump_mir(repo, scratch):
    """MIR of the library crate of a scratch copy of `repo` (nightly toolchain)."""
    dst = os.path.join(scratch, "repo-mir")
    shutil.copytree(repo, dst, ignore=shutil.ignore_patterns("target", ".git"))
    env = dict(os.environ, CARGO_NET_OFFLINE="true", CARGO_TERM_COLOR="never")
    t0 = time.time()
    p = subprocess.run(["cargo", "+nightly", "rustc", "--offline", "--lib", "--target-dir", os.path.join(scratch, "mir-target"),
                        "--", "-Zunpretty=mir"], cwd=dst, env=env, capture_output=True, text=True)
    return p.returncode, p.stdout, p.stderr, time.time() - t0


def last_segment(path):
    """`<X as T>::name::<G>` / `a::b::name` → name (closure markers kept)."""
    p = re.sub(r"::<[^()]*>$", "", path.strip())
    # strip trailing generic argument lists (possibly nested)
    while p.endswith(">") and "::<" in p:
        depth, i = 0, len(p) - 1
        while i >= 0:
            if p[i] == ">":
                depth += 1
            elif p[i] == "<":
                depth -= 1
                if depth == 0:
                    break
            i -= 1
        if i >= 2 and p[i - 2:i] == "::":
            p = p[:i - 2]
        else:
            break
    return p.split("::")[-1]


def parse(mir):
    fns = {}  # name -> list of callee texts
    cur = None
    for ln in mir.split("\n"):
        if cur is not None and STATIC_MUT_RE.search(ln):
            fns[cur].append("static mut::access")
        m = re.match(r"^fn (.+?)\((?:.*)\) -> .*\{$", ln) or re.match(r"^fn (.+?)\(", ln)
        if m and ln.startswith("fn "):
            cur = m.group(1).strip()
            fns.setdefault(cur, [])
            continue
        if ln.startswith("}"):
            cur = None
            continue
        if cur is None:
            continue
        m = re.match(r"^\s+(?:_\d+|\(\*_\d+\)|[^=]+) = (.+?)\((.*)\) -> (\[|bb|unwind)", ln)
        if m:
            fns[cur].append(m.group(1).strip())
            continue
        m = re.match(r"^\s+(.+?)\((.*)\) -> (\[|bb|unwind)", ln)  # calls without destination
        if m and not m.group(1).startswith(("assert", "drop", "switchInt", "goto")):
            fns[cur].append(m.group(1).strip())
    return fns


def build_facts(fns, sink_re=None):
    sink_re = sink_re or SINK_RE
    return _build_facts(fns, sink_re)


def _build_facts(fns, SINK_RE):
    names = sorted(fns)
    idx = {n: i for i, n in enumerate(names)}
    by_seg = {}
    for n in names:
        base = re.sub(r"::\{closure#\d+\}", "", n)
        by_seg.setdefault(last_segment(base), []).append(n)
    calls, sinks, sink_calls = set(), set(), {}
    for f, callees in fns.items():
        for c in callees:
            if SINK_RE.search(c):
                sinks.add(f)
                sink_calls.setdefault(f, []).append(c)
                continue
            for g in by_seg.get(last_segment(c), []):
                if "{closure#" not in g:
                    calls.add((f, g))
        # a function "calls" the closures defined in it
        for g in names:
            if g.startswith(f + "::{closure#"):
                calls.add((f, g))
    entries = [n for n in names if "{closure#" not in n and ENTRY_RE.search(n)]
    return names, idx, calls, sinks, sink_calls, entries


def datalog(names, idx, calls, sinks, entries):
    w = max(1, (len(names) - 1).bit_length())
    bv = lambda i: f"(_ bv{i} {w})"
    o = [f"(define-sort F () (_ BitVec {w}))",
         "(declare-rel calls (F F))", "(declare-rel sink (F))", "(declare-rel entry (F))",
         "(declare-rel reach (F F))", "(declare-rel bad (F F))",
         "(declare-var a F)", "(declare-var b F)", "(declare-var c F)",
         "(rule (=> (calls a b) (reach a b)))",
         "(rule (=> (and (reach a b) (calls b c)) (reach a c)))",
         "(rule (=> (and (entry a) (sink a)) (bad a a)))",
         "(rule (=> (and (entry a) (reach a b) (sink b)) (bad a b)))"]
    for f, g in sorted(calls):
        o.append(f"(rule (calls {bv(idx[f])} {bv(idx[g])}))")
    for s in sorted(sinks):
        o.append(f"(rule (sink {bv(idx[s])}))")
    for e in entries:
        o.append(f"(rule (entry {bv(idx[e])}))")
    o.append("(query bad :print-answer true)")
    return "\n".join(o) + "\n"


def chain(calls, entries, sinks):
    """A shortest call chain entry → sink (for the report; the verdict is z3's)."""
    adj = {}
    for f, g in calls:
        adj.setdefault(f, []).append(g)
    from collections import deque
    best = None
    for e in entries:
        prev = {e: None}
        dq = deque([e])
        while dq:
            x = dq.popleft()
            if x in sinks:
                path = []
                while x is not None:
                    path.append(x)
                    x = prev[x]
                path.reverse()
                if best is None or len(path) < len(best):
                    best = path
                break
            for y in adj.get(x, []):
                if y not in prev:
                    prev[y] = x
                    dq.append(y)
    return best


def run(repo, scratch, z3="/usr/bin/z3"):
    rc, mir, err, dt = dump_mir(repo, scratch)
    res = dict(mir_dump_s=round(dt, 1))
    if rc != 0 or "fn " not in mir:
        res.update(status="error", why="MIR dump failed: " + err[-500:])
        return res
    fns = parse(mir)
    names, idx, calls, sinks, sink_calls, entries = build_facts(fns)
    prog = datalog(names, idx, calls, sinks, entries)
    path = os.path.join(scratch, "purity.smt2")
    open(path, "w").write(prog)
    t0 = time.time()
    p = subprocess.run([z3, path], capture_output=True, text=True, timeout=300)
    out = (p.stdout + p.stderr).strip()
    res.update(functions=len(names), call_edges=len(calls), entries=len(entries), sinks=sorted(sinks),
               sink_calls={k: v for k, v in sink_calls.items()}, z3_s=round(time.time() - t0, 2), z3_answer=out[:300],
               mir_lines=mir.count("\n"))
    first = out.split("\n")[0].strip() if out else ""
    if "(error" in out or first not in ("sat", "unsat"):
        res.update(status="error", why="z3 gave no verdict: " + out[:300])
    elif first == "unsat":
        res.update(status="unreachable")
    else:
        res.update(status="reachable", chain=chain(calls, entries, sinks))
    # second query, same encoding: shared mutable state reachable from the API?
    st_re = re.compile(STATE_RE.pattern + r"|^static mut::access")
    n2, i2, c2, s2, sc2, e2 = build_facts(fns, st_re)
    path2 = os.path.join(scratch, "state.smt2")
    open(path2, "w").write(datalog(n2, i2, c2, s2, e2))
    p2 = subprocess.run([z3, path2], capture_output=True, text=True, timeout=300)
    out2 = (p2.stdout + p2.stderr).strip()
    f2 = out2.split("\n")[0].strip() if out2 else ""
    if "(error" in out2 or f2 not in ("sat", "unsat"):
        res.update(state_status="error")
    elif f2 == "unsat":
        res.update(state_status="unreachable")
    else:
        res.update(state_status="reachable", state_chain=chain(c2, e2, s2), state_calls={k: v for k, v in sc2.items()})
    return res


if __name__ == "__main__":
    import json, sys
    d = tempfile.mkdtemp(prefix="mirpurity-")
    try:
        print(json.dumps(run(sys.argv[1] if len(sys.argv) > 1 else "/repo", d), indent=1))
    finally:
        shutil.rmtree(d, ignore_errors=True)
